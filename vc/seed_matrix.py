#!/usr/bin/env python3
"""Run every kept seeded change against the checks of the property it breaks (in a scratch worktree,
via VERIF_REPO) and record the outcome in seeded/<id>/meta.json and seeded/MATRIX.md."""
import json, os, subprocess, sys, glob
ROOT = os.path.dirname(os.path.dirname(os.path.abspath(__file__)))
WT = sys.argv[1] if len(sys.argv) > 1 else "/tmp/wt0"
ONLY = set(sys.argv[2:])   # optional: re-run only these seed ids (the table is rebuilt from every meta.json)
head = subprocess.check_output(["git", "-C", "/repo", "rev-parse", "HEAD"], text=True).strip()
rows = []
for d in sorted(glob.glob(os.path.join(ROOT, "seeded", "*"))):
    mp = os.path.join(d, "meta.json")
    if not os.path.exists(mp):
        continue
    meta = json.load(open(mp))
    if ONLY and os.path.basename(d) not in ONLY:
        rows.append((os.path.basename(d), meta["property"], meta.get("verdict", "?"), ",".join(meta.get("detected_by", [])), meta.get("summary", "")[:110]))
        continue
    subprocess.check_call(["git", "-C", WT, "checkout", "-q", "-f", "--detach", head])
    subprocess.check_call(["git", "-C", WT, "clean", "-fdq", "-e", "_out"])
    r = subprocess.run(["git", "-C", WT, "apply", os.path.join(d, "patch.diff")])
    if r.returncode:
        meta["checks"] = {"apply": "FAILED"}
    else:
        res = {}
        for pid in meta.get("run_checks", [meta["property"]]):
            od = os.path.join(ROOT, "out", "_seeds_" + os.path.basename(WT))
            env = dict(os.environ, VERIF_REPO=WT, VERIF_OUT=od, VERIF_EVID=os.path.join(od, "evidence"))
            p = subprocess.run(["./check", pid], cwd=ROOT, env=env, capture_output=True, text=True)
            first = next((l for l in p.stdout.splitlines() if l.startswith(("VIOLATION", "UNDECIDED"))), "")
            res[pid] = {"exit": p.returncode, "first_line": first[:260]}
        meta["checks"] = res
    subprocess.check_call(["git", "-C", WT, "checkout", "-q", "--", "."])
    det = [k for k, v in meta["checks"].items() if isinstance(v, dict) and v.get("exit") == 1]
    und = [k for k, v in meta["checks"].items() if isinstance(v, dict) and v.get("exit") == 2]
    meta["detected_by"] = det
    meta["verdict"] = "DETECTED" if det else ("UNDECIDED" if und else "MISSED")
    json.dump(meta, open(mp, "w"), indent=1)
    rows.append((os.path.basename(d), meta["property"], meta["verdict"], ",".join(det), meta.get("summary", "")[:110]))
    print(rows[-1], flush=True)
with open(os.path.join(ROOT, "seeded", "MATRIX.md"), "w") as f:
    f.write("| seed | breaks | verdict | detected by | what |\n|---|---|---|---|---|\n")
    for r in rows:
        f.write("| " + " | ".join(r) + " |\n")
