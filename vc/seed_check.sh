#!/bin/bash
# usage: vc/seed_check.sh <diff> <prop> [<prop> ...]  -- apply a seeded change to /repo, run the checks, undo it
D=$1; shift
cd /repo && git status --short | grep -q . && { echo "/repo not clean"; exit 9; }
git -C /repo apply $D || { echo APPLY-FAILED; exit 8; }
for P in "$@"; do
  (cd /verif && ./check $P > /tmp/seed_check.out 2>&1; echo "  $P rc=$? $(grep -c VIOLATION /tmp/seed_check.out) violation line(s): $(grep -m2 -E 'VIOLATION|UNDECIDED' /tmp/seed_check.out | cut -c1-230)")
done
git -C /repo checkout -- .
