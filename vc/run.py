#!/usr/bin/env python3
"""Runner: extract + weave + Verus per unit, classify, write evidence.

exit 0  property held (possibly KNOWN-FINDING lines)
exit 1  VIOLATION property=<id> replay=<path>[ ... no-failing-input-found]
exit 2  UNDECIDED (lost anchor, unsupported construct, canary verified, rlimit, tool crash)
"""
import argparse
import concurrent.futures as cf
import hashlib
import json
import os
import re
import subprocess
import sys
import time

HERE = os.path.dirname(os.path.abspath(__file__))
ROOT = os.path.dirname(HERE)
sys.path.insert(0, HERE)
import weave  # noqa: E402

OUT = os.environ.get("VERIF_OUT") or os.path.join(ROOT, "out")
EVID = os.environ.get("VERIF_EVID") or os.path.join(ROOT, "evidence")
VERUS = os.environ.get("VERUS", "verus")
VERUS_FLAGS = ["--cfg", 'feature="bignum"', "--cfg", 'feature="value"', "--cfg", 'feature="convert"', "--cfg", 'feature="serde"',
               "--multiple-errors", "20", "--triggers-mode", "silent", "--rlimit", "60"]

# message -> obligation kind; anything else at level=error is "not a verification failure"
KINDS = [
    (r"^postcondition not satisfied", "ensures"),
    (r"^precondition not satisfied", "call-pre"),
    (r"^invariant not satisfied at end of loop body", "invariant-preserved"),
    (r"^invariant not satisfied before loop", "invariant-established"),
    (r"^possible arithmetic underflow/overflow", "arith-overflow"),
    (r"^possible bit shift underflow/overflow", "shift-overflow"),
    (r"^possible division by zero", "div-by-zero"),
    (r"^assertion failed", "assert"),
    (r"^decreases not satisfied", "termination"),
    (r"^loop invariant not satisfied", "invariant"),
    (r"^unreachable", "unreachable"),
    (r"^cannot prove termination", "termination"),
    (r"^could not prove termination", "termination"),
    (r"^recommendation not met", None),
    (r"^possible (index|slice) out of bounds", "index-bounds"),
    (r"^failed precondition", "call-pre"),
    (r"^loop must have a decreases clause", "needs-decreases"),
    (r"^Resource limit \(rlimit\) exceeded", "RLIMIT"),
    (r"^aborting due to", None),
]


def classify_msg(msg):
    for pat, kind in KINDS:
        if re.search(pat, msg):
            return kind, True
    return None, False


CUR_PID = None


def run_verus(path, log_prefix):
    OUT = os.path.dirname(path)
    cmd = [VERUS, path] + VERUS_FLAGS + ["--output-json", "--time-expanded", "--error-format=json"]
    t0 = time.time()
    try:
        p = subprocess.run(cmd, capture_output=True, text=True, timeout=1500, cwd=OUT)
    except subprocess.TimeoutExpired:
        return {"crash": "verus timeout", "cmd": cmd, "wall": time.time() - t0}
    wall = time.time() - t0
    open(log_prefix + ".stdout.json", "w").write(p.stdout)
    open(log_prefix + ".stderr.txt", "w").write(p.stderr)
    diags = []
    for ln in p.stderr.splitlines():
        ln = ln.strip()
        if ln.startswith("{"):
            try:
                d = json.loads(ln)
            except ValueError:
                continue
            if d.get("$message_type") == "diagnostic":
                diags.append(d)
    summary = None
    try:
        summary = json.loads(p.stdout)
    except ValueError:
        pass
    return {"rc": p.returncode, "diags": diags, "summary": summary, "cmd": cmd, "wall": wall,
            "stderr_tail": p.stderr[-2000:]}


def fn_breakdown(summary):
    out = {}
    if not summary:
        return out
    for m in summary.get("times-ms", {}).get("smt", {}).get("smt-run-module-times", []):
        for f in m.get("function-breakdown", []):
            out[f["function"]] = f
    return out


def clause_text(line):
    t = line.strip().rstrip(",")
    t = re.sub(r"\s+", " ", t)
    return t[:110]


def analyse_unit(unit):
    """One unit, with one fallback: when the only obstacles are compile errors / unsupported constructs located inside
    extracted functions (a changed body left the verifiable subset), those functions are kept as assumed contracts
    (bodies dropped) and the unit is run again, so that the other functions are still decided.  The obstacles stay
    listed as undecided (the unit can no longer be reported OK); obligations that fail in the second run are
    failures of functions whose text did compile."""
    first = _analyse_unit(unit, ())
    if first.get("weave_error"):
        # an anchor was lost while weaving: second attempt in lenient mode (the function concerned becomes an assumed
        # stub or is left out); the unit stays undecided, failures of the other functions are still reported
        lost = []
        second = _analyse_unit(unit, (), lenient=lost)
        if second.get("weave_error") or not lost:
            return first
        if second.get("blocked_items"):
            third = _analyse_unit(unit, tuple(second["blocked_items"]), lenient=[])
            if not third.get("weave_error"):
                second = third
        second["undecided"] = first["undecided"] + ["fallback: " + x for x in lost] + \
            [u for u in second["undecided"] if not u.startswith("vacuity canary")]
        second["status"] = "undecided"
        return second
    if first["status"] != "undecided" or not first.get("blocked_items"):
        return first
    demote = set(first["blocked_items"])
    for _round in range(3):
        second = _analyse_unit(unit, tuple(sorted(demote)))
        more = set(second.get("blocked_items") or ()) - demote
        if not more:
            break
        demote |= more
    second["undecided"] = first["undecided"] + [u for u in second["undecided"] if u not in first["undecided"]
                                                and not u.startswith("vacuity canary")]
    second["undecided"].append("fallback: " + ", ".join(sorted(short_item(x) for x in demote))
                               + " kept as assumed contract(s) for a second run of the unit")
    second["status"] = "undecided"
    second["wall"] = first.get("wall", 0) + second.get("wall", 0)
    return second


def _analyse_unit(unit, demote, lenient=None):
    """returns dict(status, failures[], canary_ok, metas, stats, ...)"""
    OUT = os.path.join(globals()["OUT"], CUR_PID or "_")
    os.makedirs(OUT, exist_ok=True)
    tmpl = os.path.join(ROOT, "units", unit + ".vu")
    res = {"unit": unit, "status": "ok", "failures": [], "undecided": [], "trusted": [],
           "metas": [], "functions": {}, "wall": 0.0, "blocked_items": []}
    blocked, unlocated = set(), False
    try:
        text, lmap, metas, stats = weave.build_unit(tmpl, canaries=True, demote=demote, lenient=lenient)
    except weave.WeaveError as e:
        res["status"] = "undecided"
        res["undecided"].append(f"extraction/weave: {e}")
        res["weave_error"] = True
        return res
    res["metas"], res["stats"] = metas, stats
    path = os.path.join(OUT, unit + ".rs")
    open(path, "w").write(text)
    json.dump(lmap, open(os.path.join(OUT, unit + ".linemap.json"), "w"))
    lines = text.split("\n")
    res["trusted"] = scan_assumptions(lines, lmap)
    r = run_verus(path, os.path.join(OUT, unit))
    res["wall"] = r.get("wall", 0)
    res["cmd"] = " ".join(r["cmd"])
    if "crash" in r:
        res["status"] = "undecided"
        res["undecided"].append(r["crash"])
        return res
    fb = fn_breakdown(r["summary"])
    res["functions"] = fb
    canary_failed = set()
    for d in r["diags"]:
        if d.get("level") != "error":
            continue
        msg = d.get("message", "")
        kind, known = classify_msg(msg)
        if known and kind is None:
            continue
        spans = sorted(d.get("spans", []), key=lambda s: not s.get("is_primary"))
        # a span inside a std / vstd macro (unreachable!, panic!, assert!) is followed back to its call site in the unit
        def _site(sp, depth=0):
            if sp.get("file_name", "").endswith(unit + ".rs") or depth > 8:
                return sp
            ex = (sp.get("expansion") or {}).get("span")
            return _site(ex, depth + 1) if ex else sp
        spans = [_site(sp) for sp in spans]
        loc_item = None
        src_line = 0
        src_file = None
        clause = None
        canary = False
        tmpl_only = True
        for sp in spans:
            ln = sp.get("line_start", 0) - 1
            if 0 <= ln < len(lmap):
                m = lmap[ln]
                if "item" in m:
                    tmpl_only = False
                    if loc_item is None:
                        loc_item, canary, src_file = m["item"], m.get("canary", False), m["file"]
                    if m.get("line") and not src_line:
                        src_line = m["line"]
                    if not m.get("line") and clause is None and m["item"] == loc_item:
                        clause = clause_text(lines[ln])
                        if len(clause) < 8:
                            # multi-line clause such as `({ let s = ...; match res { ... } })`: name it by its first lines
                            le = min(sp.get("line_end", ln + 1), ln + 40)
                            body = [clause_text(x) for x in lines[ln + 1:le] if clause_text(x)]
                            key = [x for x in body if x.startswith("//")] or body
                            clause = (clause + " " + " ".join(key[:2]))[:110]
        if sp_is_in_item_text(spans, lmap) is False and loc_item is None:
            tmpl_only = True
        if not known:
            # compile error / unsupported construct / anything that is not a proof failure
            where = f"{src_file}:{src_line}" if src_file else "template"
            res["undecided"].append(f"verus: {msg[:300]} ({where}; item={loc_item})")
            if loc_item is not None and not msg.startswith("aborting due to"):
                blocked.add(loc_item)
            elif not msg.startswith("aborting due to") and not msg.startswith("Some errors have detailed") \
                    and not msg.startswith("For more information about"):
                unlocated = True
            continue
        if kind == "needs-decreases":
            res["undecided"].append(f"loop without decreases clause in {loc_item} (no invariant woven for it)")
            continue
        if kind == "RLIMIT":
            res["undecided"].append(f"rlimit exceeded in {loc_item or 'template'}")
            continue
        if loc_item is None:
            # failure inside spec library / lemma / prelude: proof problem, not a code problem
            first = spans[0] if spans else {}
            res["undecided"].append(
                f"proof failure outside extracted code: {msg[:200]} at out/{CUR_PID}/{unit}.rs:{first.get('line_start')}")
            continue
        if canary:
            canary_failed.add(loc_item)
            continue
        srctext = ""
        if src_line and src_file:
            try:
                srctext = open(os.path.join(weave.REPO, src_file)).read().split("\n")[src_line - 1].strip()
            except Exception:
                pass
        name = f"{unit}::{short_item(loc_item)}::{kind}"
        if clause and kind in ("ensures", "invariant-preserved", "invariant-established", "assert", "call-pre"):
            name += f"[{clause}]"
        elif srctext:
            name += f"@`{srctext[:80]}`"
        res["failures"].append({
            "obligation": name, "unit": unit, "item": loc_item, "fn": short_item(loc_item), "kind": kind,
            "file": src_file, "line": src_line, "source_text": srctext, "clause": clause,
            "verifier_message": d.get("rendered", msg)[:4000],
        })
    # canary bookkeeping
    want = {m["name"] for m in metas if m["canary"]}
    res["canaries_expected"] = len(want)
    res["canaries_failed_as_required"] = len(want & canary_failed)
    missing = want - canary_failed
    hard_errors = [u for u in res["undecided"]]
    if missing and not hard_errors:
        res["undecided"].append("vacuity canary VERIFIED (contradictory precondition/assumption?) for: "
                                + ", ".join(sorted(short_item(x) for x in missing)))
    if r["summary"] is None and not res["undecided"] and not res["failures"]:
        res["undecided"].append("verus produced no JSON summary: " + r.get("stderr_tail", "")[-400:])
    if blocked and not unlocated:
        res["blocked_items"] = sorted(blocked)
    if res["undecided"]:
        res["status"] = "undecided"
    elif res["failures"]:
        res["status"] = "failed"
    return res


def sp_is_in_item_text(spans, lmap):
    for sp in spans:
        ln = sp.get("line_start", 0) - 1
        if 0 <= ln < len(lmap) and "item" in lmap[ln]:
            return True
    return False


def short_item(name):
    return name.split("::")[-1].strip()


ASSUME_PATS = [
    ("external_body", re.compile(r"#\[verifier::external_body\]")),
    ("assume_specification", re.compile(r"\bassume_specification\b")),
    ("external_type_specification", re.compile(r"external_type_specification")),
    ("external_trait_specification", re.compile(r"external_trait_specification")),
    ("assume", re.compile(r"\bassume\s*\(")),
    ("admit", re.compile(r"\badmit\s*\(")),
    ("truncate-cast", re.compile(r"#\[verifier::truncate\]")),
    ("exec_allows_no_decreases_clause", re.compile(r"exec_allows_no_decreases_clause")),
    ("uninterp-spec", re.compile(r"\buninterp\s+spec\s+fn\b")),
    ("axiom", re.compile(r"\bbroadcast\s+axiom\b|\baxiom\s+fn\b")),
]


_PROVED_ELSEWHERE = None


def proved_bodies():
    """{fn name: unit} for every `//@@ item fn` block that is woven on the real body (not sigonly)"""
    global _PROVED_ELSEWHERE
    if _PROVED_ELSEWHERE is None:
        out = {}
        import glob
        for f in glob.glob(os.path.join(ROOT, "units", "*.vu")):
            txt = open(f).read()
            for m in re.finditer(r"//@@ item fn (\w+) from[^\n]*\n(.*?)//@@ end", txt, re.S):
                if "//@@ sigonly" not in m.group(2):
                    out.setdefault(m.group(1), os.path.basename(f)[:-3])
        _PROVED_ELSEWHERE = out
    return _PROVED_ELSEWHERE


def scan_assumptions(lines, lmap):
    found = []
    for i, ln in enumerate(lines):
        code = ln.split("//")[0]
        for tag, pat in ASSUME_PATS:
            if pat.search(code):
                # name of the next fn / type on the following lines
                nm = ""
                if tag == "assume_specification":
                    mm = re.search(r"assume_specification[^\[]*\[\s*(.*?)\s*\]\s*\(", " ".join(lines[i:i + 3]))
                    nm = mm.group(1) if mm else ""
                else:
                    for k in range(i, min(i + 6, len(lines))):
                        m = re.search(r"\b(fn|struct|enum|trait|type)\s+(\w+)", lines[k])
                        if m:
                            nm = m.group(2)
                            break
                m = lmap[i] if i < len(lmap) else {}
                if m.get("canary"):
                    continue
                if "item" in m and tag == "external_body":
                    unit = proved_bodies().get(short_item(m["item"]))
                    origin = "contract stub of " + m["item"] + (f"; the same contract is PROVED on the body in unit {unit}" if unit else "; body NOT verified anywhere")
                elif "item" in m:
                    origin = "in extracted " + m["item"]
                else:
                    origin = "assumed, prelude " + m.get("tmpl", "?")
                found.append(f"{tag} {nm} ({origin})")
    return sorted(set(found))


# --------------------------------------------------------------------------
def load_known():
    p = os.path.join(ROOT, "known_findings.txt")
    finds, fixed = [], []
    if os.path.exists(p):
        for ln in open(p):
            ln = ln.strip()
            if ln.startswith("finding:"):
                kv = dict(re.findall(r"(\w+)=(\S+|\"[^\"]*\")", ln))
                finds.append({"line": ln, "property": kv.get("property"), "match": ln.split(" match=", 1)[1] if " match=" in ln else None})
            elif ln.startswith("fixed:"):
                fixed.append(ln)
    return finds, fixed


def main():
    ap = argparse.ArgumentParser()
    ap.add_argument("property")
    ap.add_argument("--tier", default=os.environ.get("VERIF_TIER", "quick"))
    ap.add_argument("--replay")
    a = ap.parse_args()
    t0 = time.time()
    os.makedirs(OUT, exist_ok=True)
    os.makedirs(EVID, exist_ok=True)
    # VERIF_MAP: development only (an alternative unit map while a unit is being written)
    props = json.load(open(os.environ.get("VERIF_MAP") or os.path.join(ROOT, "units", "properties_map.json")))
    if a.property not in props:
        print(f"UNDECIDED: property {a.property} has no registered check")
        return 2
    if a.replay:
        return do_replay(a.property, a.replay)
    global CUR_PID
    CUR_PID = a.property
    spec = props[a.property]
    units = spec["units"]  # {unit: [fn filter] or "*"}
    extra = []
    with cf.ThreadPoolExecutor(max_workers=min(8, len(units)) + 1) as ex:
        fut_extra = None
        if a.tier == "thorough" or spec.get("extra"):
            import extra_checks
            fut_extra = ex.submit(extra_checks.run, a.property, spec, a.tier)
        results = list(ex.map(analyse_unit, list(units)))
        if fut_extra is not None:
            extra = fut_extra.result()
    return report(a.property, spec, a.tier, results, extra, t0)


def in_scope(filt, fn, obligation=None):
    """filt: "*" | [fn names] | {"fns": "*"|[...], "include": regex, "exclude": regex}"""
    if filt == "*":
        return True
    if isinstance(filt, list):
        return fn in filt
    fns = filt.get("fns", "*")
    if fns != "*" and fn not in fns:
        return False
    if obligation is not None:
        if filt.get("include") and not re.search(filt["include"], obligation):
            return False
        if filt.get("exclude") and re.search(filt["exclude"], obligation):
            return False
    return True


def report(pid, spec, tier, results, extra, t0):
    units = spec["units"]
    undecided, failures = [], []
    for r in results:
        filt = units[r["unit"]]
        for u in r["undecided"]:
            undecided.append(f"{r['unit']}: {u}")
        for f in r["failures"]:
            if in_scope(filt, f["fn"], f["obligation"]):
                failures.append(f)
    for e in extra:
        undecided += e.get("undecided", [])
        failures += e.get("failures", [])
    finds, fixed = load_known()
    known_hits, new_fail = [], []
    for f in failures:
        hit = None
        for k in finds:
            if k["property"] == pid and k["match"] and k["match"] in f["obligation"]:
                hit = k
        (known_hits if hit else new_fail).append((f, hit))
    # ---------------- evidence
    fns_checked = 0
    fns_ok = 0
    solver_ms = {}
    samples = []
    trusted = set()
    fuc = []
    cmds = []
    can_exp = can_ok = 0
    clauses = 0
    loops = loops_inv = 0
    for r in results:
        trusted.update(r["trusted"])
        if r.get("cmd"):
            cmds.append(r["cmd"])
        can_exp += r.get("canaries_expected", 0)
        can_ok += r.get("canaries_failed_as_required", 0)
        st = r.get("stats", {})
        loops += st.get("loops", 0)
        loops_inv += st.get("loops_with_invariant", 0)
        for name, f in r["functions"].items():
            if name.endswith("__canary") or name.startswith("vstd::"):
                continue
            fns_checked += 1
            fns_ok += 1 if f.get("success") else 0
            solver_ms[name] = round(f.get("time-micros", 0) / 1000.0, 2)
        filt = units[r["unit"]]
        for m in r["metas"]:
            if m["kind"] == "fn":
                inscope = in_scope(filt, short_item(m["name"]))
                clauses += m["woven_clauses"]
                fuc.append({"unit": r["unit"], "function": m["name"], "file": m["file"], "lines": m["lines"],
                            "sha256": m["sha256"][:16], "rewrites": m["rewrites"],
                            "woven_clauses": m["woven_clauses"], "contracted": m["contracted"],
                            "claimed_for_this_property": inscope})
    for e in extra:
        fns_checked += e.get("obligations", 0)
        fns_ok += e.get("discharged", 0)
        trusted.update(e.get("trusted", []))
        cmds += e.get("cmds", [])
        samples += e.get("samples", [])
    for fu in fuc[:6]:
        samples.append({"obligation": f"{fu['function']} ({fu['file']}:{fu['lines'][0]}-{fu['lines'][1]}) meets its woven contract "
                        f"({fu['woven_clauses']} clauses) + implicit overflow/bounds/termination checks",
                        "solver_ms": next((v for k, v in solver_ms.items() if k.endswith("::" + short_item(fu['function']))), None)})
    viol = len(new_fail)
    ev = {
        "property_id": pid, "tier": tier, "seed": int(os.environ.get("VERIF_SEED", "0") or 0),
        "level": "proof",
        "coverage": {
            "obligations": fns_checked, "discharged": fns_ok,
            "checker_cmd": " ; ".join(cmds) if cmds else "verus (not run)",
            "trusted_base": sorted(trusted) + spec.get("assumptions", []),
            "samples": samples or [{"note": "no function reached"}],
            "obligation_unit": "one per function Verus generated SMT queries for (exec functions extracted from /repo + "
                               "supporting proof lemmas); each bundles the function's explicit clauses and its implicit "
                               "overflow / shift / index / unreachable / termination conditions",
            "explicit_woven_clauses": clauses,
            "loops_in_extracted_code": loops, "loops_with_inductive_invariant": loops_inv,
            "functions_under_contract": fuc,
            "backends": ["verus 0.2026.09.13 / z3 (unbounded, deciding)"] + [b for e in extra for b in e.get("backends", [])],
            "solver_ms": solver_ms,
            "canaries": {"must_fail": can_exp, "failed_as_required": can_ok},
            "unverified_anchors": spec.get("unverified_anchors", []),
            "extraction_drops": spec.get("extraction_drops", DROPS),
            "bounded_standins": [b for e in extra for b in e.get("bounded_standins", [])],
            "known_findings": [k["line"] for _, k in known_hits],
            "undecided": undecided,
            "failed_obligations": [f["obligation"] for f, _ in new_fail],
        },
        "assumptions": sorted(trusted) + spec.get("assumptions", []),
        "wall_s": round(time.time() - t0, 2),
        "violations": viol,
    }
    json.dump(ev, open(os.path.join(EVID, pid + ".json"), "w"), indent=1)
    for f, k in known_hits:
        print(f"KNOWN-FINDING: property={pid} {f['obligation']}")
    if new_fail:
        rdir = os.path.join(OUT, "replay", pid)
        os.makedirs(rdir, exist_ok=True)
        for i, (f, _) in enumerate(new_fail):
            h = hashlib.sha1(f["obligation"].encode()).hexdigest()[:10]
            rp = os.path.join(rdir, f"{h}.json")
            wit = f.get("witness") or find_witness(pid, f)
            rec = {"property": pid, "failed_obligation": f["obligation"], "function": f["item"],
                   "source": f"{f['file']}:{f['line']}", "source_text": f["source_text"], "kind": f["kind"],
                   "clause": f["clause"], "verifier": "verus 0.2026.09.13 / z3",
                   "verifier_output": f["verifier_message"], "witness": wit}
            json.dump(rec, open(rp, "w"), indent=1)
            if wit and wit.get("confirmed"):
                tail = f" input={wit.get('input')!r} expected={wit.get('expected')!r} got={wit.get('got')!r}"
            else:
                tail = " no-failing-input-found"
            print(f"VIOLATION property={pid} replay={rp} obligation={f['obligation']!r}{tail}")
        return 1
    if undecided:
        # the changed code may have left the verifiable subset (lost anchor, unsupported construct): a
        # CONCRETE failing input on the real code is still conclusive, so ask the witness engine
        promoted = []
        seen = set()
        for u in undecided:
            for m in re.finditer(r"(rust/[\w/]+\.rs)(?:::|:\d+; item=[\w/]+::(?:\w+::)?)(\w+)", u):
                rel, fn = m.group(1), m.group(2)
                if (rel, fn) in seen:
                    continue
                seen.add((rel, fn))
                in_units = any(in_scope(units[r["unit"]], fn) for r in results if any(short_item(mm["name"]) == fn and mm["file"] == rel for mm in r["metas"])) or True
                wit = find_witness(pid, {"fn": fn, "file": rel})
                if wit and wit.get("confirmed") and in_units:
                    promoted.append((rel, fn, wit, u))
        if promoted:
            rdir = os.path.join(OUT, "replay", pid)
            os.makedirs(rdir, exist_ok=True)
            for rel, fn, wit, u in promoted:
                name = f"witness::{fn}::spec-mismatch"
                h = hashlib.sha1((name + rel).encode()).hexdigest()[:10]
                rp = os.path.join(rdir, f"{h}.json")
                json.dump({"property": pid, "failed_obligation": name, "function": f"{rel}::{fn}",
                           "verifier": "verus could not decide (reason below); concrete witness found by vc/witness.py on the code in /repo",
                           "verifier_output": u, "witness": wit}, open(rp, "w"), indent=1)
                print(f"VIOLATION property={pid} replay={rp} obligation={name!r} input={wit.get('input')!r} expected={wit.get('expected')!r} got={wit.get('got')!r}")
            ev["violations"] = len(promoted)
            ev["coverage"]["failed_obligations"] = [f"witness::{fn}" for _, fn, _, _ in promoted]
            json.dump(ev, open(os.path.join(EVID, pid + ".json"), "w"), indent=1)
            return 1
        for u in undecided:
            print(f"UNDECIDED: property={pid} {u}")
        return 2
    print(f"OK property={pid} tier={tier} functions_checked={fns_checked} discharged={fns_ok} "
          f"canaries={can_ok}/{can_exp} wall={ev['wall_s']}s")
    return 0


DROPS = ("error-message payloads (format!/anyhow!/Error::msg text) become opaque values, error kinds kept; "
         "doc comments, #[inline], derive lists and docsrs attributes dropped; callees outside the unit are "
         "replaced by the assumed contracts listed in trusted_base; every rewrite applied to extracted text is "
         "listed per function under functions_under_contract[].rewrites")


def find_witness(pid, f):
    try:
        import witness
        return witness.search(pid, f)
    except Exception as e:  # witness search is best effort
        return {"confirmed": False, "note": f"witness search unavailable: {e}"}


def do_replay(pid, path):
    rec = json.load(open(path))
    print(json.dumps({k: rec[k] for k in rec if k != "verifier_output"}, indent=1))
    print(rec.get("verifier_output", ""))
    wit = rec.get("witness") or {}
    if wit.get("replay_cmd"):
        print("replaying witness against the real code:", wit["replay_cmd"])
        return subprocess.call(wit["replay_cmd"], shell=True, cwd=ROOT)
    print("no concrete witness recorded (no-failing-input-found); the failed obligation and verifier output are above")
    return 1


if __name__ == "__main__":
    sys.exit(main())
