"""BOUNDED stand-in (labelled bounded, never counted as proved) for the part of C02 that no contract reaches as a whole:
header validation + reference decoding of the real decoder against the specification.

  * messages are BUILT HERE, byte by byte from spec/Candid.md (type table with opt / vec / record / variant / func /
    service entries over small mutually recursive environments, one function or service reference as the argument);
  * the real `IDLArgs::from_bytes_with_types` decodes each at an expected reference type over a mutated copy of the
    environment; it must succeed exactly when the wire type is a subtype of the expected type according to the
    independent decision procedure of subtype_standin.Spec;
  * every message is also sent with a header made ill-formed in one place (type index out of range in a function
    signature / record field / opt, method names out of order or duplicated, a method whose type is not a function,
    field ids out of order): all of these must be rejected.

Environments with a cycle through mandatory record fields (uninhabited types, which the decoder deliberately treats as
`empty`) are left out, so that the specification's structural relation is the exact oracle.
"""
import os
import random
import subprocess
import time

from subtype_standin import Spec, gen_def, gen_type, mutate, rename, show
from witness import leb_ref, sleb_ref

OPC = {"null": -1, "bool": -2, "nat": -3, "int": -4, "text": -15, "reserved": -16, "empty": -17, "principal": -24}


class Msg:
    """type table of a message, built from an environment (one entry per definition and per nested composite type)"""

    def __init__(self, env):
        self.env = env
        self.memo = {}
        self.entries = []      # bytes per entry, or a dict describing a func / service entry kept for mutation
        self.shape = []        # per entry: (kind, list of child references) for the header mutations

    def ref(self, t):
        k = t[0]
        if k == "prim":
            return OPC[t[1]]
        key = "$" + t[1] if k == "ref" else show(t)
        if key in self.memo:
            return self.memo[key]
        i = len(self.entries)
        self.memo[key] = i
        self.entries.append(None)
        self.shape.append(None)
        self.shape[i] = self.describe(self.env[t[1]] if k == "ref" else t)
        return i

    def describe(self, t):
        k = t[0]
        if k in ("opt", "vec"):
            return (k, [self.ref(t[1])])
        if k in ("rec", "var"):
            return (k, [(i, self.ref(x)) for i, x in sorted(t[1])])
        if k == "func":
            return (k, [self.ref(x) for x in t[1]], [self.ref(x) for x in t[2]], t[3])
        if k == "svc":
            return (k, [(n, self.ref(x)) for n, x in sorted(t[1], key=lambda m: m[0].encode())])
        raise ValueError(t)

    @staticmethod
    def entry_bytes(sh):
        k = sh[0]
        if k in ("opt", "vec"):
            return sleb_ref(-18 if k == "opt" else -19) + sleb_ref(sh[1][0])
        if k in ("rec", "var"):
            b = sleb_ref(-20 if k == "rec" else -21) + leb_ref(len(sh[1]))
            for i, r in sh[1]:
                b += leb_ref(i) + sleb_ref(r)
            return b
        if k == "func":
            b = sleb_ref(-22) + leb_ref(len(sh[1])) + b"".join(sleb_ref(r) for r in sh[1])
            b += leb_ref(len(sh[2])) + b"".join(sleb_ref(r) for r in sh[2])
            return b + (leb_ref(1) + b"\x01" if sh[3] else leb_ref(0))
        b = sleb_ref(-23) + leb_ref(len(sh[1]))
        for n, r in sh[1]:
            nb = n.encode()
            b += leb_ref(len(nb)) + nb + sleb_ref(r)
        return b

    def message(self, arg_ref, value, shape=None):
        shape = self.shape if shape is None else shape
        return b"DIDL" + leb_ref(len(shape)) + b"".join(self.entry_bytes(s) for s in shape) + leb_ref(1) + sleb_ref(arg_ref) + value


PRINCIPAL = b"\x01" + leb_ref(3) + b"\xca\xff\xee"
FUNC_VALUE = b"\x01" + PRINCIPAL + leb_ref(1) + b"m"
SVC_VALUE = PRINCIPAL


def mandatory_cycle(env):
    """is there a cycle through record fields only (an uninhabited type)?"""
    def succ(t):
        if t[0] == "ref":
            return succ(env[t[1]]) if t[1] in env else []
        if t[0] == "rec":
            out = []
            for _, x in t[1]:
                out.append(x)
            return out
        return []
    names = list(env)

    def reach(t, seen, depth=0):
        if depth > 40:
            return True
        for x in succ(t):
            key = show(x)
            if x[0] == "ref" and x[1] in seen:
                return True
            if x[0] == "ref":
                if reach(x, seen | {x[1]}, depth + 1):
                    return True
            elif x[0] == "rec":
                if reach(x, seen, depth + 1):
                    return True
        return False
    return any(reach(("ref", n), {n}) for n in names)


def header_mutants(m, arg_ref, value):
    """ill-formed variants of the header (each: description, bytes)"""
    out = []
    n = len(m.shape)
    for i, sh in enumerate(m.shape):
        k = sh[0]
        if k == "func":
            for part in (1, 2):
                for j in range(len(sh[part])):
                    bad = list(sh)
                    lst = list(sh[part])
                    lst[j] = n + 3
                    bad[part] = lst
                    out.append((f"entry {i}: function {'argument' if part == 1 else 'result'} {j} is the out-of-range index {n + 3}",
                                m.message(arg_ref, value, m.shape[:i] + [tuple(bad)] + m.shape[i + 1:])))
        elif k in ("opt", "vec"):
            out.append((f"entry {i}: {k} of the out-of-range index {n}", m.message(arg_ref, value, m.shape[:i] + [(k, [n])] + m.shape[i + 1:])))
        elif k in ("rec", "var"):
            if sh[1]:
                fs = list(sh[1])
                fs[0] = (fs[0][0], n + 1)
                out.append((f"entry {i}: field type is the out-of-range index {n + 1}", m.message(arg_ref, value, m.shape[:i] + [(k, fs)] + m.shape[i + 1:])))
            if len(sh[1]) >= 2:
                fs = list(sh[1])
                fs[0], fs[1] = fs[1], fs[0]
                out.append((f"entry {i}: field ids not ascending", m.message(arg_ref, value, m.shape[:i] + [(k, fs)] + m.shape[i + 1:])))
                fs = list(sh[1])
                fs[1] = (fs[0][0], fs[1][1])
                out.append((f"entry {i}: duplicate field id", m.message(arg_ref, value, m.shape[:i] + [(k, fs)] + m.shape[i + 1:])))
        elif k == "svc":
            if len(sh[1]) >= 2:
                ms = list(sh[1])
                ms[0], ms[1] = ms[1], ms[0]
                out.append((f"entry {i}: method names not ascending", m.message(arg_ref, value, m.shape[:i] + [(k, ms)] + m.shape[i + 1:])))
                ms = list(sh[1])
                ms[1] = (ms[0][0], ms[1][1])
                out.append((f"entry {i}: duplicate method name", m.message(arg_ref, value, m.shape[:i] + [(k, ms)] + m.shape[i + 1:])))
            if sh[1]:
                ms = list(sh[1])
                ms[0] = (ms[0][0], OPC["nat"])
                out.append((f"entry {i}: method of type nat (not a function)", m.message(arg_ref, value, m.shape[:i] + [(k, ms)] + m.shape[i + 1:])))
                nonfunc = [j for j, s2 in enumerate(m.shape) if s2[0] != "func"]
                if nonfunc:
                    ms = list(sh[1])
                    ms[0] = (ms[0][0], nonfunc[0])
                    out.append((f"entry {i}: method whose type is table entry {nonfunc[0]}, not a function", m.message(arg_ref, value, m.shape[:i] + [(k, ms)] + m.shape[i + 1:])))
    return out


def gen_prim_or(rnd, names):
    r = rnd.random()
    if r < 0.08:
        return ("prim", "empty")
    if r < 0.15:
        return ("rec", ((0, ("prim", rnd.choice(["empty", "nat"]))), (1, ("prim", "nat"))))
    if r < 0.55:
        return ("ref", rnd.choice(names))
    return gen_type(rnd, names, 1)


def scenario(rnd):
    n = rnd.randrange(2, 5)
    left = [f"L{i}" for i in range(n)]
    right = [f"R{i}" for i in range(n)]
    env = {}
    for nm in left:
        env[nm] = gen_def(rnd, left)
    mp = dict(zip(left, right))
    for a, b in zip(left, right):
        t = rename(env[a], mp)
        for _ in range(rnd.choice([0, 0, 1, 1, 2])):
            t = mutate(rnd, t)
        if t[0] in ("prim", "ref"):
            t = ("rec", ((0, t),))
        env[b] = t

    def sig(names):
        return ("func", tuple(gen_prim_or(rnd, names) for _ in range(rnd.randrange(0, 3))),
                tuple(gen_prim_or(rnd, names) for _ in range(rnd.randrange(0, 3))), rnd.random() < 0.15)
    w = sig(left)
    e = rename(w, mp)
    if rnd.random() < 0.6:
        e = mutate(rnd, e)
    if rnd.random() < 0.3:      # a service reference
        w2 = sig(left)
        names = rnd.sample(["a", "b", "get", "put", "zz", "get_pspbiy"], rnd.randrange(1, 4))
        wm = tuple((nm, w if k == 0 else w2) for k, nm in enumerate(names))
        w = ("svc", wm)
        em = [(nm, rename(t, mp)) for nm, t in wm]
        c = rnd.random()
        if c < 0.3 and len(em) > 1:
            em.pop(rnd.randrange(len(em)))          # fewer methods expected: still a subtype
        elif c < 0.5:
            em.append(("new", rename(w2, mp)))      # a method the wire service lacks: not a subtype
        elif c < 0.8:
            k = rnd.randrange(len(em))
            em[k] = (em[k][0], mutate(rnd, em[k][1]))
        if "get_pspbiy" in names and rnd.random() < 0.5:
            # methods are identified by NAME: `put_sqsptw` has the same 32-bit hash as `get_pspbiy` and is another method
            em = [("put_sqsptw" if nm == "get_pspbiy" else nm, t) for nm, t in em]
        e = ("svc", tuple(em))
    return env, w, e


def run(pid, build_replay):
    t0 = time.time()
    exe, err = build_replay()
    if not exe:
        return {"undecided": [f"bounded stand-in: the real crate does not build: {err}"], "failures": []}
    scale = int(os.environ.get("VERIF_STANDIN_SCALE", "1"))
    rnd = random.Random(2000 + int(os.environ.get("VERIF_SEED", "0") or 0))
    cmds, meta = [], []
    tries = 0
    want = 700 * (20 if scale > 1 else 1)
    while len([1 for m in meta if m[0] == "sub"]) < want and tries < want * 20:
        tries += 1
        env, w, e = scenario(rnd)
        if mandatory_cycle(env):
            continue
        m = Msg(env)
        try:
            arg = m.ref(w)
        except (KeyError, ValueError):
            continue
        value = SVC_VALUE if w[0] == "svc" else FUNC_VALUE
        defs = ",".join(f"{n}={show(t)}" for n, t in env.items())
        want_ok = Spec(env).sub(w, e)
        cmds.append(f"rd {m.message(arg, value).hex()} {defs} {show(e)}")
        meta.append(("sub", want_ok, f"wire {show(w)} at expected {show(e)}"))
        for what, b in header_mutants(m, arg, value)[:6]:
            cmds.append(f"rd {b.hex()} {defs} {show(e)}")
            meta.append(("hdr", False, what))
        # the decoder is total on whatever expected type it is given, also with short error messages (the wasm32 default, where
        # the size of the expected type is estimated before it is printed): a service-constructor type can never be decoded
        # at, and an empty argument list can never satisfy it -- both must be errors, not panics
        if len(meta) % 5 == 0 and e[0] == "svc":
            cls = "c(" + ";".join(show(x) for x in (w[1][0][1][1] if w[0] == "svc" else ())) + ">" + show(e) + ")"
            cmds.append(f"rds {m.message(arg, value).hex()} {defs} {cls}")
            meta.append(("tot", False, f"expected type is the service constructor {cls}"))
            cmds.append(f"rds 4449444c0000 {defs} {cls}")
            meta.append(("tot", False, f"no value on the wire, expected type is the service constructor {cls}"))
    # deep reference types on threads whose stack ends at different places: whichever frame meets the recursion guard,
    # the decoder returns (an error, or a value by the opt rule) -- it does not panic
    for kb in range(256, 1025, 32):
        cmds.append(f"deep 3000 {kb}")
        meta.append(("deep", None, f"a 3000-deep reference type on a {kb} KiB stack"))
    # length fields of the header that promise far more than the input holds (2^40 and 2^62 entries / arguments / fields /
    # methods / name bytes, a table one entry above the documented limit): an error, with memory that does not follow the
    # promised count.  Run in a process of their own so that its peak memory can be read.
    import resource
    def _leb(n):
        b = bytearray()
        while True:
            x = n & 0x7f
            n >>= 7
            b.append(x | (0x80 if n else 0))
            if not n:
                return bytes(b)
    big = []
    for n in (2 ** 40, 2 ** 62):
        big += [("argument count", b"DIDL\x00" + _leb(n)), ("type table length", b"DIDL" + _leb(n)),
                ("record field count", b"DIDL\x01\x6c" + _leb(n)), ("variant field count", b"DIDL\x01\x6b" + _leb(n)),
                ("function argument count", b"DIDL\x01\x6a" + _leb(n)), ("function result count", b"DIDL\x01\x6a\x00" + _leb(n)),
                ("function mode count", b"DIDL\x01\x6a\x00\x00" + _leb(n)), ("service method count", b"DIDL\x01\x69" + _leb(n)),
                ("method name length", b"DIDL\x01\x69\x01" + _leb(n)), ("future entry length", b"DIDL\x01\x5f" + _leb(n))]
    big.append(("type table length one above the limit", b"DIDL" + _leb(10001) + b"\x6e\x7f" * 10001 + b"\x00"))
    import tempfile
    # peak memory of the probe process: taken from /usr/bin/time (GNU time reports the wait4 figure of the process it starts).
    # A direct wait4 from here would be wrong: Linux carries the high-water mark of the forked copy of THIS process over the
    # exec, so the figure would never be below this Python process's own size.
    with tempfile.TemporaryDirectory() as td:
        fin, fout, frss = os.path.join(td, "in"), os.path.join(td, "out"), os.path.join(td, "rss")
        open(fin, "w").write("\n".join(f"rds {m.hex()} X=nat o(nat)" for _, m in big) + "\n")
        timed = os.path.exists("/usr/bin/time")
        cmdl = (["/usr/bin/time", "-f", "%M", "-o", frss] if timed else []) + [exe]
        with open(fin) as fi, open(fout, "w") as fo:
            pr = subprocess.run(cmdl, stdin=fi, stdout=fo, stderr=subprocess.DEVNULL, timeout=600)
        big_outs = [l.strip() for l in open(fout).read().splitlines()]
        try:
            rss_kb = int(open(frss).read().split()[-1]) if timed else -1
        except (OSError, ValueError, IndexError):
            rss_kb = -1
    class _PB:
        returncode = pr.returncode
    pb = _PB()
    big_fail = None
    if len(big_outs) != len(big):
        big_fail = ("every oversized header is answered", f"{len(big_outs)} answers for {len(big)} messages (exit {pb.returncode})", big[min(len(big_outs), len(big) - 1)])
    else:
        for (what, m), o in zip(big, big_outs):
            if o != "err":
                big_fail = ("err", o, (what, m))
                break
        if not big_fail and rss_kb > 400 * 1024:      # -1 = not measured (no /usr/bin/time): the criterion is then not applied
            big_fail = ("peak memory below 400 MiB for 21 messages of at most 20 KiB", f"{rss_kb} KiB", big[0])
    # deeply nested VALUES (untyped `type T = opt T`, native List) on threads with little stack: the recursion guard looks at
    # the stack that is left, so decoding must return whatever the stack size -- a stack overflow kills the whole process,
    # hence a process of its own
    dv_cmds = [f"dval {kind} {depth} {kb}" for kind in ("opt", "list") for depth in (300, 100000) for kb in (96, 128, 192, 256, 512)]
    pdv = subprocess.run([exe], input="\n".join(dv_cmds) + "\n", capture_output=True, text=True, timeout=600)
    dv_outs = [l.strip() for l in pdv.stdout.splitlines()]
    dv_fail = None
    if pdv.returncode != 0 or len(dv_outs) != len(dv_cmds):
        dv_fail = (dv_cmds[min(len(dv_outs), len(dv_cmds) - 1)], f"the process died (exit status {pdv.returncode}) after {len(dv_outs)} of {len(dv_cmds)} answers: {pdv.stderr.strip()[-160:]}")
    else:
        for c, o in zip(dv_cmds, dv_outs):
            if o not in ("ok", "err"):
                dv_fail = (c, o)
                break
    p = subprocess.run([exe], input="\n".join(cmds) + "\n", capture_output=True, text=True, timeout=1800)
    outs = [l.strip() for l in p.stdout.splitlines()]
    if len(outs) != len(cmds):
        return {"undecided": [f"bounded stand-in: replay produced {len(outs)} lines for {len(cmds)} messages"], "failures": []}
    failures = []
    if dv_fail:
        cmd, got = dv_fail
        failures.append({
            "obligation": "bounded-standin::decode::deeply nested values return (no stack overflow) whatever stack is left", "unit": "bounded-standin",
            "item": "decoder (recursion guard)", "fn": "decode", "kind": "bounded-standin", "file": "rust/candid/src/utils.rs", "line": 0,
            "source_text": "", "clause": None, "verifier_message": f"{cmd}: expected ok or err, got {got}",
            "witness": {"confirmed": True, "function": "candid::IDLArgs::from_bytes / Decode!", "input": cmd, "expected": "ok or err (a value or an error)",
                        "got": got, "replay_cmd": f"echo '{cmd}' | {exe}"}})
    if big_fail:
        exp, got, (what, m) = big_fail
        cmd = f"rds {m.hex()} X=nat o(nat)"
        failures.append({
            "obligation": "bounded-standin::decode::a header that promises more than the input holds is an error with bounded memory", "unit": "bounded-standin",
            "item": "decoder (header)", "fn": "decode", "kind": "bounded-standin", "file": "rust/candid/src/binary_parser.rs", "line": 0,
            "source_text": "", "clause": None, "verifier_message": f"{what}: expected {exp}, got {got}",
            "witness": {"confirmed": True, "function": "candid::IDLArgs::from_bytes_with_types", "input": cmd[:300] + (" ..." if len(cmd) > 300 else ""), "expected": f"{exp}  ({what})",
                        "got": got, "replay_cmd": f"echo '{cmd}' | {exe}"}})
    npos = sum(1 for k, w_ok, _ in meta if k == "sub" and w_ok)
    for cmd, (kind, want_ok, what), o in zip(cmds, meta, outs):
        got_ok = o == "ok"
        if kind == "deep" and o in ("ok", "err"):
            continue
        if o not in ("ok", "err") or got_ok != want_ok:
            ob = ("reference accepted exactly when its wire type is a subtype of the expected type" if kind == "sub"
                  else "decoding returns a value or an error for every expected type (no panic)" if kind in ("tot", "deep")
                  else "ill-formed type table is rejected")
            failures.append({
                "obligation": "bounded-standin::decode::" + ob, "unit": "bounded-standin", "item": "decoder (header + reference types)",
                "fn": "decode", "kind": "bounded-standin", "file": "rust/candid/src/binary_parser.rs", "line": 0, "source_text": "", "clause": None,
                "verifier_message": f"{what}: expected {'ok or err' if want_ok is None else 'ok' if want_ok else 'err'}, got {o}",
                "witness": {"confirmed": True, "function": "candid::IDLArgs::from_bytes_with_types", "input": cmd[:700],
                            "expected": ("ok or err" if want_ok is None else "ok" if want_ok else "err") + f"  ({what})", "got": o, "replay_cmd": f"echo '{cmd}' | {exe}"}})
            if len(failures) >= 3:
                break
    return {"failures": failures, "undecided": [], "obligations": 0, "discharged": 0, "trusted": [],
            "cmds": [f"{exe} < hand-built messages (bounded stand-in)"],
            "backends": ["BOUNDED stand-in (messages built from the spec, real decoder vs independent subtype decision procedure; not a proof)"],
            "samples": [],
            "bounded_standins": [{"functions": ["binary_parser.rs header parsing and type-table validation (to_type, to_env, to_types)",
                                                "de.rs deserialize_function / deserialize_service -> check_subtype -> types/subtype.rs",
                                                "type_env.rs replace_empty / is_empty (must leave inhabited types alone)"],
                                  "bound": f"{len([1 for m in meta if m[0] == 'sub'])} seeded messages carrying one function / service reference over environments of 2..4 "
                                           f"definitions ({npos} of them subtypes), each also with up to 6 single-point header corruptions "
                                           f"({len([1 for m in meta if m[0] == 'hdr'])} ill-formed messages); {len(dv_cmds)} deeply nested values (opt chains untyped, lists natively, depth 300 and 100000) on threads with 96..512 KiB of stack, in a process of their own (it must survive); {len(big)} headers whose length fields promise 2^40 / 2^62 items or one table entry above the limit (error demanded, peak memory of that process {rss_kb} KiB, bound 400 MiB); environments with a cycle through mandatory record fields left out",
                                  "vectors": len(cmds), "disagreements": len(failures), "labelled": "bounded, NOT proved",
                                  "wall_s": round(time.time() - t0, 1)}]}
