#!/usr/bin/env python3
"""Rebuild DESIGN.md section 0.7 (which checks catch which seeded changes) from seeded/*/meta.json."""
import glob, json, os, re
ROOT = os.path.dirname(os.path.dirname(os.path.abspath(__file__)))
rows, ded, wit, bnd, miss = [], 0, 0, 0, 0
for mp in sorted(glob.glob(os.path.join(ROOT, "seeded", "*", "meta.json"))):
    m = json.load(open(mp))
    caught, kinds = [], set()
    for pid, v in m.get("checks", {}).items():
        if not isinstance(v, dict) or v.get("exit") != 1:
            continue
        fl = v.get("first_line", "")
        ob = re.search(r"obligation=(['\"])(.*?)\1", fl)
        ob = ob.group(2)[:70] if ob else fl[:70]
        if "bounded-standin" in fl:
            kind = "bounded stand-in"
        elif "input=" in fl:
            kind = "Verus obligation +witness"
        else:
            kind = "Verus obligation"
        kinds.add(kind)
        caught.append(f"{pid}: {kind} `{ob}`")
    if not caught:
        miss += 1
    elif any(k.startswith("Verus") for k in kinds):
        ded += 1
    else:
        bnd += 1
    rows.append(f"| {m['id']} | {m.get('verdict', '?')} | {m.get('summary', '')[:95]} | {'; '.join(caught) or '-'} |")
n = len(rows)
text = "### 0.7 Which checks catch which seeded changes (last run of vc/seed_matrix.py)\n\n| seed | verdict | change | caught by |\n|---|---|---|---|\n"
text += "\n".join(rows) + "\n\n"
text += (f"{n - miss} of {n} detected: {ded} by a failing Verus obligation of an extracted function (deductive, some with a concrete witness), "
         f"{bnd} only by a labelled bounded stand-in, {miss} missed.\n")
p = os.path.join(ROOT, "DESIGN.md")
s = open(p).read()
a = s.index("### 0.7 Which checks catch which seeded changes")
b = s.index("Reading: \"Verus obligation\"")
s = s[:a] + text + s[b:]
open(p, "w").write(s)
print(f"{n - miss}/{n} detected, {ded} deductive, {bnd} bounded-only, {miss} missed")
