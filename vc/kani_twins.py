"""Kani twins (thorough tier): contracts re-checked on the COMPILED crate with hooks on.
Each group states whether it is complete (loop-free / operand-width loops with unwinding assertions) or bounded."""
import os
import re
import subprocess
import sys
import time

HERE = os.path.dirname(os.path.abspath(__file__))
ROOT = os.path.dirname(HERE)
sys.path.insert(0, HERE)
import weave  # noqa: E402

GROUPS = {
    "prim_ser": {
        "harnesses": ["ser_nat8", "ser_nat16", "ser_nat32", "ser_nat64", "ser_int8", "ser_int16", "ser_int32", "ser_int64", "ser_float32", "ser_float64"],
        "args": ["--default-unwind", "10", "-j", "10", "--output-format=terse"],
        "kind": "COMPLETE (full domain of each type; the only loops compare <= 8 bytes, unwinding assertions on)",
        "what": "ser.rs serialize_num! expansions (macro + paste): serialize_<t>(v) appends exactly v.to_le_bytes() (floats by bit pattern)",
        "file": "rust/candid/src/ser.rs", "fn": "serialize_num!",
    },
    "bulk": {
        "harnesses": ["bulk_width_primitives", "bulk_width_wrappers_are_not_raw"],
        "kind": "COMPLETE for the listed types (loop-free harnesses, no unwinding bound)",
        "what": "impls.rs fixed_primitive_byte_size::<T>() == Some(size_of::<T>()) for the 11 fixed-width primitives and None for "
                "10 wrapper / non-primitive types (Box, Rc, Arc, &, RefCell, Option, u128, Nat, String)",
        "file": "rust/candid/src/types/impls.rs", "fn": "fixed_primitive_byte_size",
    },
}


def run(pid, group):
    g = GROUPS[group]
    t0 = time.time()
    outroot = os.environ.get("VERIF_OUT") or os.path.join(ROOT, "out")
    work = os.path.join(outroot, "kani_crate")
    os.makedirs(os.path.join(work, "src"), exist_ok=True)
    os.makedirs(os.path.join(work, ".cargo"), exist_ok=True)
    src = os.path.join(ROOT, "kani")
    open(os.path.join(work, "Cargo.toml"), "w").write(
        open(os.path.join(src, "Cargo.toml")).read().replace("/repo/rust/", os.path.join(weave.REPO, "rust/")))
    open(os.path.join(work, "src", "lib.rs"), "w").write(open(os.path.join(src, "src", "lib.rs")).read())
    open(os.path.join(work, ".cargo", "config.toml"), "w").write("[net]\noffline = true\n")
    lock = os.path.join(weave.REPO, "Cargo.lock")
    if os.path.exists(lock):
        open(os.path.join(work, "Cargo.lock"), "w").write(open(lock).read())
    cmd = ["cargo", "kani"] + g.get("args", [])
    for h in g["harnesses"]:
        cmd += ["--harness", h]
    env = dict(os.environ, CARGO_NET_OFFLINE="true", RUSTFLAGS="--cfg dfinity_candid_verif",
               CARGO_TARGET_DIR=os.path.join(outroot, "kani_target"))
    env.pop("RUSTUP_TOOLCHAIN", None)
    try:
        p = subprocess.run(cmd, cwd=work, env=env, capture_output=True, text=True, timeout=3000)
    except subprocess.TimeoutExpired:
        return {"undecided": [f"kani twin `{group}`: timeout"], "failures": []}
    log = os.path.join(outroot, f"kani_{group}.log")
    open(log, "w").write(p.stdout + "\n" + p.stderr)
    text = p.stdout
    results = {}
    lines = text.splitlines()
    thread_h, cur_thread, cur_h = {}, None, None
    for i, ln in enumerate(lines):
        m = re.match(r"(?:Thread (\d+): )?Checking harness ([\w:]+)\.\.\.", ln)
        if m:
            cur_h = m.group(2).split("::")[-1]
            if m.group(1) is not None:
                thread_h[m.group(1)] = cur_h
            continue
        m = re.match(r"Thread (\d+):\s*$", ln)
        if m:
            cur_thread = m.group(1)
            continue
        if ln.startswith("VERIFICATION:-"):
            h = thread_h.get(cur_thread) if cur_thread is not None else cur_h
            if h:
                if "SUCCESSFUL" in ln:
                    results[h] = ("ok", "")
                else:
                    ctx = " ".join(x for x in lines[max(0, i - 12):i] if "Failed Checks" in x or "FAILURE" in x)
                    results[h] = ("failed", ctx[:600])
            cur_thread = None
    failures, undecided = [], []
    for h in g["harnesses"]:
        st = results.get(h)
        if st is None:
            undecided.append(f"kani twin `{group}`: harness {h} produced no verdict (see {log}): {p.stderr[-300:]}")
        elif st[0] == "failed":
            failures.append({
                "obligation": f"kani::{group}::{h}", "unit": "kani", "item": g["fn"], "fn": g["fn"], "kind": "kani-assert",
                "file": g["file"], "line": 0, "source_text": "", "clause": g["what"],
                "verifier_message": f"Kani/CBMC refutes harness {h} on the compiled crate: {st[1]}\n(full output: {log})",
                "witness": {"confirmed": True, "function": g["file"] + "::" + g["fn"], "input": f"harness {h} (loop-free; the failing assertion names the type)",
                            "expected": g["what"], "got": st[1],
                            "replay_cmd": f"cd {work} && RUSTFLAGS='--cfg dfinity_candid_verif' cargo kani --harness {h}"}})
    n = len(g["harnesses"])
    return {"failures": failures, "undecided": undecided, "obligations": n, "discharged": n - len(failures) - len(undecided),
            "trusted": ["Kani 0.68 / CBMC 6.11 and Kani's std models (thorough tier)"],
            "cmds": [" ".join(cmd) + "  (RUSTFLAGS=--cfg dfinity_candid_verif)"],
            "backends": [f"kani/cbmc: {group}: {g['kind']}"],
            "samples": [{"kani_twin": g["what"], "harnesses": g["harnesses"], "wall_s": round(time.time() - t0, 1)}]}


if __name__ == "__main__":
    import json
    print(json.dumps(run("C01", sys.argv[1]), indent=1)[:3000])
