#!/bin/sh
# usage: vc/mut.sh <prop> <file-rel> <sed-expr>   -- apply a one-line mutation in the scratch tree /tmp/wt0, run check, revert
P=$1; F=$2; E=$3
cd /tmp/wt0 && git checkout -q -- . && sed -i "$E" "$F" && git diff --stat | tail -1
cd /verif && VERIF_REPO=/tmp/wt0 ./check $P > /tmp/mut.out 2>&1; rc=$?; cut -c1-260 /tmp/mut.out; echo "rc=$rc"
cd /tmp/wt0 && git checkout -q -- .
