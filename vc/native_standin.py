#!/usr/bin/env python3
"""BOUNDED stand-in (labelled; not a proof): NATIVE decoding against the specification's coercion.

The deductive units put the readers of de.rs under contract one function at a time; the composition through the
serde-generic `Deserialize` impls of Rust types (derive output, std collections, big numbers) is assumed there.  This
stand-in exercises that composition on the real crate: for a fixed list of Rust types with known Candid types, seeded
messages are built from the spec (type table, values) at wire types obtained from the Candid type by the edits a
sender of another version could have made (nat for int, fields added / dropped, options added / dropped, fewer
variant tags, unrelated types under opt ..).  `Decode!(bytes, T)` must succeed exactly when the coercion relation of
spec/Candid.md has a result at T's Candid type, and re-encoding the decoded Rust value must give exactly the coerced
value (maps: as a key-sorted map, later duplicates winning).

Everything the expectation is computed from is in this file and in coercion_standin.py (the spec's encoder and
coercion relation); nothing is taken from the implementation."""
import os
import random
import subprocess
import time

from bounded_standin import SpecDecodeError, spec_decode
import coercion_standin as cs
from coercion_standin import ANY, FAIL, ENVS, Enc, coerce_args, gen_type, gen_value, idl_hash, show, signed_view

H = idl_hash


def rec(*fs):
    return ("record", sorted((H(n) if isinstance(n, str) else n, t) for n, t in fs))


def var(*fs):
    return ("variant", sorted((H(n) if isinstance(n, str) else n, t) for n, t in fs))


LIST_DEFS = {"List": rec(("head", "int8"), ("tail", ("opt", ("ref", "List"))))}

# index in replay/src/main.rs `native_case`  ->  (Rust type, Candid types of the arguments, definitions, normal form)
NATIVE = [
    ("Vec<u8>", [("vec", "nat8")], {}, None),
    ("Vec<Option<i32>>", [("vec", ("opt", "int32"))], {}, None),
    ("Option<Vec<u16>>", [("opt", ("vec", "nat16"))], {}, None),
    ("R1 { a: u8, b: Option<String>, c: Vec<bool> }", [rec(("a", "nat8"), ("b", ("opt", "text")), ("c", ("vec", "bool")))], {}, None),
    ("V1 { A, B(i16), C { x: Option<u8> } }", [var(("A", "null"), ("B", "int16"), ("C", rec(("x", ("opt", "nat8")))))], {}, None),
    ("BTreeMap<String, u32>", [("vec", rec((0, "text"), (1, "nat32")))], {}, "map"),
    ("BTreeMap<u8, Vec<u8>>", [("vec", rec((0, "nat8"), (1, ("vec", "nat8"))))], {}, "map"),
    ("(Int, Nat)", ["int", "nat"], {}, None),
    ("Vec<Int>", [("vec", "int")], {}, None),
    ("Vec<Nat>", [("vec", "nat")], {}, None),
    ("(u128, i128)", ["nat", "int"], {}, None),
    ("List { head: i8, tail: Option<Box<List>> }", [("ref", "List")], LIST_DEFS, None),
    ("T2(u8, String)", [rec((0, "nat8"), (1, "text"))], {}, None),
    ("Result<u8, String>", [var(("Ok", "nat8"), ("Err", "text"))], {}, None),
    ("Option<Option<u8>>", [("opt", ("opt", "nat8"))], {}, None),
    ("Vec<Vec<u8>>", [("vec", ("vec", "nat8"))], {}, None),
    ("(Principal, Reserved, Option<i64>)", ["principal", "reserved", ("opt", "int64")], {}, None),
    ("R2 { inner: R1, more: Vec<V1>, note: Option<Nat> }",
     [rec(("inner", rec(("a", "nat8"), ("b", ("opt", "text")), ("c", ("vec", "bool")))),
          ("more", ("vec", var(("A", "null"), ("B", "int16"), ("C", rec(("x", ("opt", "nat8"))))))),
          ("note", ("opt", "nat")))], {}, None),
    ("(bool, String, f64-free)", ["bool", "text"], {}, None),
    ("Vec<(u16, Option<String>)>", [("vec", rec((0, "nat16"), (1, ("opt", "text"))))], {}, None),
    ("BTreeMap<u8, Option<u8>>", [("vec", rec((0, "nat8"), (1, ("opt", "nat8"))))], {}, "map"),
    ("V2 { P(i16, u8), Q }", [var(("P", rec((0, "int16"), (1, "nat8"))), ("Q", "null"))], {}, None),
    ("(Vec<(u16, Option<String>)>, Vec<u8>)", [("vec", rec((0, "nat16"), (1, ("opt", "text")))), ("vec", "nat8")], {}, None),
    ("(Vec<u64>, Vec<i16>)", [("vec", "nat64"), ("vec", "int16")], {}, None),
    ("Option<Box<List>>", [("opt", ("ref", "List"))], LIST_DEFS, None),
    ("Vec<()>", [("vec", "null")], {}, None),
    # fixed-size arrays: the Candid type is the vector; the host type holds exactly N elements (any other length is an error)
    ("[u8; 4]", [("vec", "nat8")], {}, ("array", {0: 4})),
    ("[String; 2]", [("vec", "text")], {}, ("array", {0: 2})),
    ("([u8; 2], Vec<u8>)", [("vec", "nat8"), ("vec", "nat8")], {}, ("array", {0: 2})),
    ("([i32; 3], Option<[bool; 1]>)", [("vec", "int32"), ("opt", ("vec", "bool"))], {}, ("array", {0: 3})),
    ("BTreeSet<i64>", [("vec", "int64")], {}, "set"),
    ("VecDeque<Option<bool>>", [("vec", ("opt", "bool"))], {}, None),
    ("Box<Option<u8>>", [("opt", "nat8")], {}, None),
    ("V3 { N(Option<V1>), S { list: Vec<u8>, t: (u8, u8) } }",
     [var(("N", ("opt", var(("A", "null"), ("B", "int16"), ("C", rec(("x", ("opt", "nat8"))))))),
          ("S", rec(("list", ("vec", "nat8")), ("t", rec((0, "nat8"), (1, "nat8"))))))], {}, None),
    ("Result<u8, Empty>", [var(("Ok", "nat8"), ("Err", "empty"))], {}, None),
    # borrowed byte slices: read only from a blob on the wire (vectors of another element type do not coerce into a borrow:
    # a type mismatch, which reads as null below an expected opt)
    ("Option<&[u8]>", [("opt", ("vec", "nat8"))], {}, "borrowed"),
    ("(&[u8], u8)", [("vec", "nat8"), "nat8"], {}, "borrowed"),
    ("R3 { data: Option<&[u8]>, n: u8 }", [rec(("data", ("opt", ("vec", "nat8"))), ("n", "nat8"))], {}, "borrowed"),
    ("Duration", [rec(("secs", "nat64"), ("nanos", "nat32"))], {}, "duration"),
    ("(u8, String, bool)", [rec((0, "nat8"), (1, "text"), (2, "bool"))], {}, None),
    ("HashMap<u8, u8>", [("vec", rec((0, "nat8"), (1, "nat8")))], {}, "map"),
    # derived newtype structs around fixed-width primitives, inside vectors / arrays (the primitive-vector window, repair D14)
    ("Vec<Millis(u64)>", [("vec", "nat64")], {}, None),
    ("Vec<Flag(bool)>", [("vec", "bool")], {}, None),
    ("[Millis(u64); 2]", [("vec", "nat64")], {}, ("array", {0: 2})),
    ("Vec<Wrap2(Millis(u64))>", [("vec", "nat64")], {}, None),
    # more element / key types that reach the shortcuts through a wrapper
    ("Vec<Reverse<u32>>", [("vec", "nat32")], {}, None),
    ("Vec<Cell<u8>>", [("vec", "nat8")], {}, None),
    ("Vec<Box<u64>>", [("vec", "nat64")], {}, None),
    ("Vec<usize>", [("vec", "nat64")], {}, None),
    ("Vec<u128>", [("vec", "nat")], {}, None),
    ("BTreeMap<Key(String), u8>", [("vec", rec((0, "text"), (1, "nat8")))], {}, "map"),
    ("Vec<WrapNat(Nat)>", [("vec", "nat")], {}, None),
    ("Vec<(u8,)>", [("vec", rec((0, "nat8")))], {}, None),
]


def borrowed(t):
    """the expected types of a Rust type that BORROWS its byte slices: `vec nat8` becomes the host-restricted `blobref`"""
    if isinstance(t, list):
        return [borrowed(x) for x in t]
    if isinstance(t, str) or t[0] == "ref":
        return t
    if t == ("vec", "nat8"):
        return "blobref"
    if t[0] in ("opt", "vec"):
        return (t[0], borrowed(t[1]))
    return (t[0], [(i, borrowed(x)) for i, x in t[1]])


def is_nullable(t, env):
    while not isinstance(t, str) and t[0] == "ref":
        t = env[t[1]]
    return t in ("null", "reserved") or (not isinstance(t, str) and t[0] == "opt")


def wire_of(rnd, e, env, bad, depth=0):
    """a wire type a sender of another version could have used for the expected type `e`"""
    if not isinstance(e, str) and e[0] == "ref":
        return e if rnd.random() < 0.8 or depth > 2 else wire_of(rnd, env[e[1]], env, bad, depth + 1)
    c = rnd.random()
    if isinstance(e, str):
        if e == "reserved":
            return gen_type(rnd, 1)
        if e == "int" and c < 0.5:
            return "nat"
        if bad and c > 0.85:
            return rnd.choice([p for p in ("nat", "int", "text", "bool", "nat8", "null", "int16") if p != e])
        return e
    k = e[0]
    if k == "opt":
        if c < 0.5:
            return ("opt", wire_of(rnd, e[1], env, bad, depth + 1))
        if c < 0.6:
            return rnd.choice(["null", "reserved"])
        if c < 0.8:
            return wire_of(rnd, e[1], env, bad, depth + 1)           # sender had a mandatory value
        if c < 0.9:
            return ("opt", gen_type(rnd, 1))                         # unrelated payload: reads as null
        return gen_type(rnd, 1)                                      # unrelated type altogether: reads as null
    if k == "vec":
        if bad and c > 0.9:
            return gen_type(rnd, 1)
        return ("vec", wire_of(rnd, e[1], env, bad, depth + 1))
    fs = []
    if k == "record":
        for fid, t in e[1]:
            if is_nullable(t, env) and rnd.random() < 0.3:
                continue                                             # absent on the wire: reads as null
            if bad and rnd.random() < 0.08:
                continue                                             # a mandatory field is missing
            fs.append((fid, wire_of(rnd, t, env, bad, depth + 1)))
        used = {f for f, _ in e[1]}
        for _ in range(rnd.choice([0, 0, 1, 2])):                    # fields the receiver does not know
            fid = rnd.choice([0, 1, 2, 3, 7, 97, 98, 99, 1000, 4000000000, H("zz"), H("a"), H("note2")])
            if fid not in used:
                used.add(fid)
                fs.append((fid, gen_type(rnd, 2)))
        return ("record", sorted(fs))
    # variant: a subset of the receiver's tags, possibly one it does not know
    tags = [x for x in e[1] if rnd.random() < 0.8] or [rnd.choice(e[1])]
    fs = [(fid, wire_of(rnd, t, env, bad, depth + 1)) for fid, t in tags]
    if bad and rnd.random() < 0.3:
        used = {f for f, _ in e[1]}
        fid = rnd.choice([f for f in (0, 1, 5, 77, H("Zed")) if f not in used])
        fs.append((fid, "null"))
    return ("variant", sorted(fs))


def gen_val(rnd, t, env, depth=0):
    if not isinstance(t, str) and t[0] == "ref":
        return gen_val(rnd, env[t[1]], env, depth + 1)
    if isinstance(t, str) or t[0] not in ("opt", "vec", "record", "variant"):
        return gen_value(rnd, t)
    if t[0] == "opt":
        return None if rnd.random() < (0.3 if depth < 6 else 1.0) else ("some", gen_val(rnd, t[1], env, depth + 1))
    if t[0] == "vec":
        return [gen_val(rnd, t[1], env, depth + 1) for _ in range(rnd.choice([0, 1, 2, 3, 4, 5]))]
    if t[0] == "record":
        return [(i, gen_val(rnd, x, env, depth + 1)) for i, x in t[1]]
    inhabited = [f for f in t[1] if f[1] != "empty"]                      # the empty type has no values
    if not inhabited:
        raise ValueError("no value of this variant type")
    i, x = rnd.choice(inhabited)
    return ("variant", i, gen_val(rnd, x, env, depth + 1))


def map_normal_form(v):
    """a decoded map re-encodes key-sorted, a later duplicate key replacing an earlier one"""
    d = {}
    for pair in v:
        kv = dict(pair)
        d[kv[0] if not isinstance(kv[0], list) else tuple(kv[0])] = pair
    return [d[k] for k in sorted(d)]


def _res(t, env):
    n = 0
    while not isinstance(t, str) and t[0] == "ref" and n < 8:
        t, n = env[t[1]], n + 1
    return t


def native_shape_issue(t, e, env, map_here=False, depth=0, serde_std=False):
    """KNOWN FINDINGS (known_findings.txt, DESIGN 0.4): where the Rust type is a tuple / tuple struct / map entry, the native
    path demands more of the WIRE record than the spec's record rule does.  Returns "map" (deserialize_map: the entry record
    must have exactly the fields 0 and 1), "tuple" (deserialize_seq: the wire record must itself be a tuple, ids 0..m-1) or
    None, for the first such place met when wire and expected type are walked together (type level, value independent)."""
    if depth > 8:
        return None
    t, e = _res(t, env), _res(e, env)
    if isinstance(e, str):
        return None
    if e[0] == "opt":
        if not isinstance(t, str) and t[0] == "opt":
            return native_shape_issue(t[1], e[1], env, False, depth + 1, serde_std)
        if t in ("null", "reserved"):
            return None
        return native_shape_issue(t, e[1], env, False, depth + 1, serde_std)
    if isinstance(t, str) or t[0] != e[0]:
        return None
    if e[0] == "vec":
        te, ee = _res(t[1], env), _res(e[1], env)
        if map_here and (isinstance(te, str) or te[0] != "record" or [i for i, _ in te[1]] != [0, 1]):
            return "map"     # decided on the element TYPE before any element is read: also for an empty vector
        return native_shape_issue(t[1], e[1], env, False, depth + 1)
    wt = dict(t[1])
    if e[0] == "record" and serde_std and not set(wt) <= {i for i, _ in e[1]}:
        return "serde_std"
    if e[0] == "record":
        n = len(e[1])
        if n >= 1 and [i for i, _ in e[1]] == list(range(n)) and [i for i, _ in t[1]] != list(range(len(t[1]))):
            return "tuple"
    for fid, x in e[1]:
        if fid in wt:
            r = native_shape_issue(wt[fid], x, env, False, depth + 1)
            if r:
                return r
    return None


KNOWN = {
    "serde_std": "known::a wire record with a field the Rust type does not have is rejected at std::time::Duration (serde's own Deserialize impl denies unknown fields)",
    "map": "known::a map entry record with other fields than 0 and 1 is rejected at a Rust map (de.rs deserialize_map: expect a key-value pair)",
    "tuple": "known::a wire record that is not itself a tuple is rejected at a Rust tuple / tuple struct (de.rs deserialize_seq: is not a tuple type)",
}


def run(pid, build_replay):
    t0 = time.time()
    exe, err = build_replay()
    if not exe:
        return {"undecided": [f"bounded stand-in: the real crate does not build: {err}"], "failures": []}
    scale = int(os.environ.get("VERIF_STANDIN_SCALE", "1"))
    rnd = random.Random(7000 + int(os.environ.get("VERIF_SEED", "0") or 0))
    cases = []
    per_type = 260 * (10 if scale > 1 else 1)
    for k, (rust, exps, env, norm) in enumerate(NATIVE):
        for _ in range(per_type):
            bad = rnd.random() < 0.35
            tys = [wire_of(rnd, e, env, bad) for e in exps]
            c = rnd.random()
            if c < 0.10:
                tys = tys + [gen_type(rnd, 2)]                       # surplus argument: dropped
            elif c < 0.18 and tys:
                tys = tys[:-1]                                       # missing argument: null if the type allows it
            try:
                vals = [gen_val(rnd, t, env) for t in tys]
                msg = Enc(env).message(tys, vals)
            except (KeyError, ValueError, IndexError):
                continue
            ENVS["w"], ENVS["e"] = env, env
            want = coerce_args(vals, tys, borrowed(exps) if norm == "borrowed" else exps)
            if want is not FAIL and norm == "map":
                want = [map_normal_form(want[0])]
            if want is not FAIL and norm == "duration":
                # host type: nanoseconds below 10^9 (serde's impl carries the excess into the seconds; overflow is an error)
                d = dict(want[0])
                secs, nanos = d[H("secs")] + d[H("nanos")] // 10 ** 9, d[H("nanos")] % 10 ** 9
                want = FAIL if secs >= 2 ** 64 else [sorted([(H("secs"), secs), (H("nanos"), nanos)])]
            if want is not FAIL and norm == "set":
                want = [sorted(set(want[0]))]                        # a decoded set re-encodes sorted, duplicates gone
            if want is not FAIL and isinstance(norm, tuple) and norm[0] == "array":
                if any(len(want[j]) != n for j, n in norm[1].items()):
                    want = FAIL                                      # host limit: the array holds exactly N elements
                elif k == 29 and want[1] is not None and len(want[1][1]) != 1:
                    continue                                         # Option<[bool; 1]> of another length: error or null, not pinned here
            cases.append((f"nt {k} {msg.hex()}", rust, tys, vals, exps, want, env, norm))
            if rnd.random() < 0.25:
                # arbitrary damage (C06): a value or an error, never a panic -- also through the serde impls of native types
                b = bytearray(msg)
                for _ in range(rnd.choice([1, 1, 2, 3])):
                    j = rnd.randrange(len(b))
                    c = rnd.random()
                    if c < 0.6:
                        b[j] = rnd.choice([0x00, 0x01, 0x7f, 0x80, 0xff, b[j] ^ (1 << rnd.randrange(8)), rnd.getrandbits(8)])
                    elif c < 0.8 and len(b) > 1:
                        del b[j]
                    else:
                        b.insert(j, b[j])
                cases.append((f"nt {k} {bytes(b).hex()}", rust, tys, "arbitrary damage", exps, ANY, env, norm))
    # hand-made messages in which the bytes a short-reading visitor would leave behind happen to be a well-formed next value
    # (the repaired defects D11 and D12 decoded these to different values without an error)
    for k, tys, vals in [
        (28, [("vec", "nat8"), ("vec", "nat8")], [[1, 2, 2], [7]]),
        (28, [("vec", "nat8"), ("vec", "nat8")], [[1, 2, 1, 9], []]),
        (22, [("vec", rec((0, "nat16"), (1, ("opt", "text")), (2, "nat16"))), ("vec", "nat8")], [[[(0, 1), (1, None), (2, 0x0103)]], [0xAA]]),
        (22, [("vec", rec((0, "nat16"), (1, ("opt", "text")), (2, "nat8"))), ("vec", "nat8")], [[[(0, 1), (1, None), (2, 1)]], [5]]),
    ]:
        rust, exps, env, norm = NATIVE[k]
        msg = Enc(env).message(tys, vals)
        ENVS["w"], ENVS["e"] = env, env
        want = coerce_args(vals, tys, exps)
        if want is not FAIL and isinstance(norm, tuple) and any(len(want[j]) != n for j, n in norm[1].items()):
            want = FAIL
        cases.append((f"nt {k} {msg.hex()}", rust, tys, vals, exps, want, env, norm))
    # the documented host limit of (u128, i128): values outside the 128-bit range are an error, values inside are exact
    for n, i, wire_i in [(2 ** 128 - 1, -2 ** 127, "int"), (2 ** 128, 0, "int"), (0, 2 ** 127, "int"), (0, 2 ** 127 - 1, "int"),
                         (0, 2 ** 127 - 1, "nat"), (0, 2 ** 127, "nat"), (2 ** 200, 0, "int"), (0, -2 ** 127 - 1, "int")]:
        k = 10
        rust, exps, env, norm = NATIVE[k]
        tys, vals = ["nat", wire_i], [n, i]
        msg = Enc(env).message(tys, vals)
        ENVS["w"], ENVS["e"] = env, env
        want = coerce_args(vals, tys, exps)
        if not (0 <= n < 2 ** 128 and -2 ** 127 <= i < 2 ** 127):
            want = FAIL
        cases.append((f"nt {k} {msg.hex()}", rust, tys, vals, exps, want, env, norm))
    p = subprocess.run([exe], input="\n".join(c[0] for c in cases) + "\n", capture_output=True, text=True, timeout=1800)
    outs = [l.strip() for l in p.stdout.splitlines()]
    if len(outs) != len(cases):
        return {"undecided": [f"bounded stand-in: replay produced {len(outs)} lines for {len(cases)} messages"], "failures": []}
    failures, nfail, known_seen, nknown = [], 0, set(), 0
    for (cmd, rust, tys, vals, exps, want, env, norm), o in zip(cases, outs):
        ENVS["w"], ENVS["e"] = env, env
        nfail += want is FAIL
        why = None
        if want is ANY:
            if o != "err" and not o.startswith("ok "):
                why = ("a value or an error (the message was damaged at random; decoding must still return)", o[:160])
        elif want is FAIL:
            if o != "err":
                why = ("an error (the coercion relation has no result)", o[:160])
        elif not o.startswith("ok "):
            why = (f"the coerced values {want}", o[:160])
        else:
            try:
                _, dv = spec_decode(bytes.fromhex(o[3:]), want_types=False)
                dv = [signed_view(v, t) for v, t in zip(dv, exps)]
                if norm == "map":
                    dv = [map_normal_form(dv[0])]                  # a HashMap re-encodes in its own iteration order
                if dv != want:
                    why = (f"the coerced values {want}", f"{dv}")
            except (SpecDecodeError, Exception) as e:   # noqa: B014
                why = ("a well-formed re-encoding of the result", f"{type(e).__name__}: {e}")
        if pid == "C06" and (o == "err" or o.startswith("ok ")):
            why = None            # under C06 only "decoding returns" is in question, not what it returns
        known = None
        if why and want is not FAIL and want is not ANY and o == "err":
            for j, e in enumerate(exps):
                if j < len(tys):
                    known = known or native_shape_issue(tys[j], e, env, map_here=(norm == "map"), serde_std=(norm == "duration"))
        if known:
            nknown += 1
            if known in known_seen:
                continue
            known_seen.add(known)
        if why:
            desc = (f"values {vals} of wire types ({', '.join(show(t) for t in tys)}) decoded at the Rust type {rust} "
                    f"[Candid ({', '.join(show(e) for e in exps)})]")
            failures.append({
                "obligation": "bounded-standin::decode::native::" + (KNOWN[known] if known else "native decoding returns the specification's coercion at the Candid type of the Rust type"),
                "unit": "bounded-standin", "item": "decoder (native types)", "fn": "decode", "kind": "bounded-standin",
                "file": "rust/candid/src/de.rs", "line": 0, "source_text": "", "clause": None,
                "verifier_message": f"{desc}: expected {why[0]}, got {why[1]}",
                "witness": {"confirmed": True, "function": "candid::Decode!", "input": cmd[:600], "expected": str(why[0])[:300],
                            "got": str(why[1])[:300], "replay_cmd": f"echo '{cmd}' | {exe}"}})
            if len([f for f in failures if "::known::" not in f["obligation"]]) >= 3:
                break
    return {"failures": failures, "undecided": [], "obligations": 0, "discharged": 0, "trusted": [],
            "cmds": [f"{exe} < spec-encoded messages decoded at native Rust types (bounded stand-in)"],
            "backends": ["BOUNDED stand-in (messages and reference results computed from spec/Candid.md; real Decode!/Encode! at native Rust types in the loop; not a proof)"],
            "samples": [],
            "bounded_standins": [{"functions": ["de.rs through the serde-generic Deserialize impls of Rust types (derive output, Vec / Option / BTreeMap / tuples, "
                                                "Int / Nat / u128 / i128, Principal, Reserved, Box recursion): the composition the deductive units assume"],
                                  "bound": f"{len(cases)} seeded messages, {per_type} for each of {len(NATIVE)} Rust types ({'; '.join(n[0] for n in NATIVE)}); wire types = the Candid type "
                                           f"of the Rust type after sender-side edits (nat for int, fields added / dropped, options added / dropped / mismatched, fewer or unknown "
                                           f"variant tags, surplus / missing arguments); about a fifth of the messages once more with one to three bytes damaged at random (a value or an error is demanded, never a panic); {nfail} of them have no coercion (an error is demanded); {nknown} of them meet one of the two recorded findings "
                                           f"(wire record not a tuple at a Rust tuple / map entry)",
                                  "vectors": len(cases), "disagreements": len(failures), "labelled": "bounded, NOT proved",
                                  "wall_s": round(time.time() - t0, 1)}]}


QUOTA_TYPES = [0, 1, 2, 3, 4, 5, 6, 7, 8, 9, 11, 13, 14, 15, 17, 18, 19, 21, 23, 24, 25, 33]


def run_quota(pid, build_replay):
    """C07 on the same corpus: for seeded messages decoded at native Rust types, the cost measured under a generous quota
    does not depend on how generous it is, a quota pair equal to the measured cost reproduces the unmetered result, and one
    unit less on either counter is a QUOTA error (never another error, never a different value)."""
    t0 = time.time()
    exe, err = build_replay()
    if not exe:
        return {"undecided": [f"bounded stand-in: the real crate does not build: {err}"], "failures": []}
    scale = int(os.environ.get("VERIF_STANDIN_SCALE", "1"))
    rnd = random.Random(7500 + int(os.environ.get("VERIF_SEED", "0") or 0))
    msgs = []
    for k in QUOTA_TYPES:
        rust, exps, env, norm = NATIVE[k]
        for _ in range(40 * (10 if scale > 1 else 1)):
            tys = [wire_of(rnd, e, env, False) for e in exps]
            if rnd.random() < 0.25:
                tys = tys + [gen_type(rnd, 2)]                       # a surplus argument: skipped, charged to the skipping quota
            try:
                vals = [gen_val(rnd, t, env) for t in tys]
                msgs.append((k, rust, Enc(env).message(tys, vals).hex(), f"values {vals} of wire types ({', '.join(show(t) for t in tys)})"))
            except (KeyError, ValueError, IndexError):
                continue

    def ask(lines):
        p = subprocess.run([exe], input="\n".join(lines) + "\n", capture_output=True, text=True, timeout=1800)
        return [l.strip() for l in p.stdout.splitlines()]

    B1, B2 = 10 ** 12, 3 * 10 ** 12 + 11
    first = ask([x for k, _, h, _ in msgs for x in (f"nq {k} {h} - -", f"nq {k} {h} {B1} {B1}", f"nq {k} {h} {B2} {B2}")])
    if len(first) != 3 * len(msgs):
        return {"undecided": [f"bounded stand-in: replay produced {len(first)} lines for {3 * len(msgs)} commands"], "failures": []}
    failures, second, plan = [], [], []

    def fail(k, rust, h, desc, cmd, exp, got):
        failures.append({
            "obligation": "bounded-standin::quotas never change the result / cost is quota independent (native types)", "unit": "bounded-standin",
            "item": "decode_args_with_config_debug", "fn": "decode_args_with_config_debug", "kind": "bounded-standin",
            "file": "rust/candid/src/de.rs", "line": 0, "source_text": "", "clause": None,
            "verifier_message": f"{desc} decoded at {rust}: `{cmd}` gave `{got[:200]}`, expected {exp}",
            "witness": {"confirmed": True, "function": "candid::utils::decode_args_with_config_debug", "input": cmd[:600],
                        "expected": exp, "got": got[:300], "replay_cmd": f"echo '{cmd}' | {exe}"}})

    nok = 0
    for j, (k, rust, h, desc) in enumerate(msgs):
        free, a, b = first[3 * j:3 * j + 3]
        if not free.startswith("ok "):
            if a.startswith("ok ") or b.startswith("ok "):
                fail(k, rust, h, desc, f"nq {k} {h} {B1} {B1}", "the unmetered outcome (an error)", a)
            continue
        nok += 1
        val = free[3:].split(" | ")[0]
        if not (a.startswith("ok ") and b.startswith("ok ")):
            fail(k, rust, h, desc, f"nq {k} {h} {B1} {B1}", "ok (a generous quota cannot make decoding fail)", a + " / " + b)
            continue
        (va, ca), (vb, cb) = a[3:].split(" | "), b[3:].split(" | ")
        if va != val or vb != val:
            fail(k, rust, h, desc, f"nq {k} {h} {B1} {B1}", f"the unmetered value {val[:80]}", va if va != val else vb)
            continue
        if ca != cb:
            fail(k, rust, h, desc, f"nq {k} {h} {B2} {B2}", f"the same cost {ca} as under the quotas {B1}", cb)
            continue
        cd, cs = [int(x) for x in ca.split(" ")]
        second += [f"nq {k} {h} {cd} {cs}"]
        plan.append((j, "exact", val, cd, cs))
        if cd > 0:
            second += [f"nq {k} {h} {cd - 1} {cs}"]
            plan.append((j, "dec-1", val, cd, cs))
        if cs > 0:
            second += [f"nq {k} {h} {cd} {cs - 1}"]
            plan.append((j, "skip-1", val, cd, cs))
        if len(failures) >= 3:
            break
    outs = ask(second) if second and len(failures) < 3 else []
    for cmd, (j, what, val, cd, cs), o in zip(second, plan, outs):
        k, rust, h, desc = msgs[j]
        if what == "exact":
            if not o.startswith("ok ") or o[3:].split(" | ")[0] != val:
                fail(k, rust, h, desc, cmd, f"ok with the unmetered value (quotas = measured cost {cd} / {cs})", o)
        elif o != "err QUOTA":
            fail(k, rust, h, desc, cmd, f"a quota error (one unit below the measured cost {cd} / {cs})", o)
        if len(failures) >= 3:
            break
    return {"failures": failures[:3], "undecided": [], "obligations": 0, "discharged": 0, "trusted": [],
            "cmds": [f"{exe} < native messages under quota sweeps (bounded stand-in)"],
            "backends": ["BOUNDED stand-in (real decoder at native Rust types under quota sweeps; not a proof)"], "samples": [],
            "bounded_standins": [{"functions": ["de.rs metering as a whole, through decode_args_with_config_debug at native Rust types"],
                                  "bound": f"{len(msgs)} seeded messages at {len(QUOTA_TYPES)} native Rust types ({nok} decode): no quota, two generous quota pairs (same value, "
                                           f"same cost), quotas equal to the measured cost (same value), one unit less on either counter (a QUOTA error)",
                                  "vectors": 3 * len(msgs) + len(second), "disagreements": len(failures), "labelled": "bounded, NOT proved",
                                  "wall_s": round(time.time() - t0, 1)}]}
