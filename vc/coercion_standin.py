"""BOUNDED stand-in (labelled bounded, never counted as proved) for the whole-message statement of C02 that no contract
reaches: "decoding at an expected type is exactly the specification's coercion".

  * random (non-recursive) argument types and values are generated here and ENCODED HERE from spec/Candid.md (T, I, M);
  * the expected types are the argument types after random edits -- identity, supertype-like (drop a record field, add an
    optional field, wrap in opt, nat -> int, reserved, drop an argument, add an optional argument) and incompatible ones
    (change a primitive, add a mandatory field, remove a variant tag, ...);
  * the reference result is the coercion relation `V : T ~> V' : T'` of the spec, implemented here rule by rule
    (value directed: a failed coercion under opt gives null, a missing opt / null / reserved field or argument reads as
    null, surplus fields and arguments are dropped, an unknown variant tag fails);
  * the real decoder (`IDLArgs::from_bytes_with_types`) must fail exactly when the relation has no result, and otherwise
    its result -- handed back re-encoded at the expected types by the real encoder and read by the independent spec
    decoder -- must be the related value.
"""
import os
import random
import subprocess
import time

from bounded_standin import spec_decode, SpecDecodeError
from witness import leb_ref, sleb_ref

NAME_POOL = ["a", "b", "id", "name", "a,b", "_", "x y", "h\u00e9", "\"", "unit", "0", "ok", "err", "_a_"]
OPC = {"principal": -24, "null": -1, "bool": -2, "nat": -3, "int": -4, "nat8": -5, "nat16": -6, "nat32": -7, "nat64": -8, "int8": -9, "int16": -10,
       "int32": -11, "int64": -12, "text": -15, "reserved": -16, "empty": -17}
FIXED = {"nat8": (1, False), "nat16": (2, False), "nat32": (4, False), "nat64": (8, False), "int8": (1, True), "int16": (2, True),
         "int32": (4, True), "int64": (8, True)}
FAIL = object()
ANY = object()       # expectation of a damaged message: a value or an error (anything but a panic)


def show(t):
    if isinstance(t, str):
        return t
    if t[0] == "ref":
        return "$" + t[1]
    if t[0] in ("opt", "vec"):
        return ("o(" if t[0] == "opt" else "v(") + show(t[1]) + ")"
    return ("r(" if t[0] == "record" else "V(") + ";".join(f"{label(i)}:{show(x)}" for i, x in t[1]) + ")"


NAMES = {}      # field id -> name, for expected types written with named labels (`n<hex>` in the replay syntax)


def label(i):
    return "n" + NAMES[i].encode().hex() if i in NAMES else str(i)


def idl_hash(name):
    h = 0
    for b in name.encode():
        h = (h * 223 + b) % 2 ** 32
    return h


ID_POOL = sorted(set(list(range(6)) + [idl_hash(n) for n in NAME_POOL]))
POOL_NAME = {idl_hash(n): n for n in NAME_POOL}


# ------------------------------------------------------------------ generation
def gen_type(rnd, depth):
    r = rnd.random()
    if depth <= 0 or r < 0.45:
        return rnd.choice(["nat", "int", "bool", "text", "null", "nat8", "int16", "nat32", "int64", "reserved", "nat", "text", "principal"])
    if r < 0.50:
        return ("vec", "nat8")                                        # blobs take their own path in the decoder
    if r < 0.60:
        return ("opt", gen_type(rnd, depth - 1))
    if r < 0.72:
        return ("vec", gen_type(rnd, depth - 1))
    if r < 0.90:
        ids = sorted(rnd.sample(ID_POOL, rnd.randrange(0, 4)))
        return ("record", [(i, gen_type(rnd, depth - 1)) for i in ids])
    ids = sorted(rnd.sample(ID_POOL, rnd.randrange(1, 4)))
    return ("variant", [(i, gen_type(rnd, depth - 1)) for i in ids])


def gen_value(rnd, t):
    if t == "principal":
        return ("principal", bytes(rnd.getrandbits(8) for _ in range(rnd.choice([0, 1, 10, 29]))))
    if isinstance(t, str):
        if t in ("null", "reserved"):
            return None
        if t == "bool":
            return rnd.random() < 0.5
        if t == "nat":
            return rnd.choice([0, 1, 127, 128, 300, 2 ** 64, rnd.getrandbits(70)])
        if t == "int":
            return rnd.choice([0, -1, 63, 64, -64, -65, 2 ** 63, -2 ** 70, rnd.getrandbits(40) - 2 ** 39])
        if t == "text":
            return rnd.choice(["", "a", "héllo", "x" * 130])
        n, signed = FIXED[t]
        v = rnd.getrandbits(8 * n)
        return v - (1 << (8 * n)) if signed and v >= 1 << (8 * n - 1) else v
    if t[0] == "opt":
        return None if rnd.random() < 0.3 else ("some", gen_value(rnd, t[1]))
    if t[0] == "vec":
        return [gen_value(rnd, t[1]) for _ in range(rnd.choice([0, 1, 2, 3]))]
    if t[0] == "record":
        return [(i, gen_value(rnd, x)) for i, x in t[1]]
    i, x = rnd.choice(t[1])
    return ("variant", i, gen_value(rnd, x))


def edit(rnd, t, bad):
    """one local edit; `bad` allows edits that are meant to make the coercion fail somewhere"""
    if isinstance(t, str):
        c = rnd.random()
        if bad and c < 0.6:
            return rnd.choice([p for p in ("nat", "int", "text", "bool", "nat8", "null") if p != t])
        if c < 0.35:
            return ("opt", t)
        if c < 0.5:
            return "reserved"
        if c < 0.65 and t == "nat":
            return "int"
        if bad and c < 0.9:
            return rnd.choice([p for p in ("nat", "int", "text", "bool", "nat8", "null") if p != t])
        return t
    k = t[0]
    c = rnd.random()
    if k in ("opt", "vec"):
        if c < 0.6:
            return (k, edit(rnd, t[1], bad))
        if c < 0.75:
            return ("opt", t)
        if c < 0.85 and k == "opt":
            return t[1] if bad else t
        return t
    fs = list(t[1])
    if k == "record":
        if c < 0.4 and fs:
            j = rnd.randrange(len(fs))
            fs[j] = (fs[j][0], edit(rnd, fs[j][1], bad))
        elif c < 0.6 and fs:
            fs.pop(rnd.randrange(len(fs)))                       # surplus wire field: dropped
        elif c < 0.85:
            free = [i for i in range(8) if i not in dict(fs)]
            if free:
                nt = rnd.choice([("opt", "nat"), "null", "reserved", ("opt", ("vec", "text"))]) if not bad or rnd.random() < 0.5 \
                    else rnd.choice(["nat", "text", ("vec", "nat")])
                fs.append((rnd.choice(free), nt))
                fs.sort()
        elif c < 0.92:
            return ("opt", t)
        return (k, fs)
    # variant
    if c < 0.5:
        j = rnd.randrange(len(fs))
        fs[j] = (fs[j][0], edit(rnd, fs[j][1], bad))
    elif c < 0.7:
        free = [i for i in range(8) if i not in dict(fs)]
        if free:
            fs.append((rnd.choice(free), "null"))
            fs.sort()
    elif c < 0.85 and bad and len(fs) > 1:
        fs.pop(rnd.randrange(len(fs)))
    elif c < 0.95:
        return ("opt", t)
    return (k, fs)


# ------------------------------------------------------------------ the spec's encoder (T, I, M)
class Enc:
    def __init__(self, env=None, poison=None):
        self.memo, self.entries, self.env = {}, [], env or {}
        # malformed-value mutants: `sites` counts the places where a value byte can be made ill-formed (bool byte, opt tag,
        # variant index, first byte of a non-empty text); the site numbered `poison` is written ill-formed
        self.sites, self.poison = 0, poison

    def site(self):
        self.sites += 1
        return self.poison is not None and self.sites - 1 == self.poison

    def ref(self, t):
        if isinstance(t, str):
            return OPC[t]
        if t[0] == "ref":
            key = "$" + t[1]
            if key not in self.memo:
                # a named (possibly recursive) definition: reserve its entry first, then fill it
                d = self.env[t[1]]
                i = len(self.entries)
                self.memo[key] = i
                self.entries.append(None)
                if d[0] in ("opt", "vec"):
                    b = sleb_ref(-18 if d[0] == "opt" else -19) + sleb_ref(self.ref(d[1]))
                else:
                    b = sleb_ref(-20 if d[0] == "record" else -21) + leb_ref(len(d[1]))
                    for fid, x in d[1]:
                        b += leb_ref(fid) + sleb_ref(self.ref(x))
                self.entries[i] = b
            return self.memo[key]
        key = show(t)
        if key in self.memo:
            return self.memo[key]
        i = len(self.entries)
        self.memo[key] = i
        self.entries.append(None)
        if t[0] in ("opt", "vec"):
            b = sleb_ref(-18 if t[0] == "opt" else -19) + sleb_ref(self.ref(t[1]))
        else:
            b = sleb_ref(-20 if t[0] == "record" else -21) + leb_ref(len(t[1]))
            for fid, x in t[1]:
                b += leb_ref(fid) + sleb_ref(self.ref(x))
        self.entries[i] = b
        return i

    def val(self, t, v):
        if not isinstance(t, str) and t[0] == "ref":
            return self.val(self.env[t[1]], v)
        if isinstance(t, str):
            if t in ("null", "reserved"):
                return b""
            if t == "bool":
                return bytes([2 if self.site() else (1 if v else 0)])
            if t == "nat":
                return leb_ref(v)
            if t == "int":
                return sleb_ref(v)
            if t == "text":
                u = v.encode()
                if u and self.site():
                    u = b"\xff" + u[1:]
                return leb_ref(len(u)) + u
            if t == "principal":
                return b"\x01" + leb_ref(len(v[1])) + v[1]
            n, signed = FIXED[t]
            return (v & ((1 << (8 * n)) - 1)).to_bytes(n, "little")
        if t[0] == "opt":
            if v is None:
                return b"\x00"
            return (b"\x02" if self.site() else b"\x01") + self.val(t[1], v[1])
        if t[0] == "vec":
            return leb_ref(len(v)) + b"".join(self.val(t[1], x) for x in v)
        if t[0] == "record":
            return b"".join(self.val(x, fv) for (_, x), (_, fv) in zip(t[1], v))
        idx = [i for i, _ in t[1]].index(v[1])
        return leb_ref(len(t[1]) if self.site() else idx) + self.val(t[1][idx][1], v[2])

    def message(self, types, values):
        refs = [self.ref(t) for t in types]
        return (b"DIDL" + leb_ref(len(self.entries)) + b"".join(self.entries) + leb_ref(len(types))
                + b"".join(sleb_ref(r) for r in refs) + b"".join(self.val(t, v) for t, v in zip(types, values)))


# ------------------------------------------------------------------ the spec's coercion relation  V : T ~> V' : T'
def null_sub(t):
    while not isinstance(t, str) and t[0] == "ref":
        t = ENVS["e"][t[1]]
    return t in ("null", "reserved") or (not isinstance(t, str) and t[0] == "opt")


ENVS = {"w": {}, "e": {}}      # definitions of the wire side and of the expected side (named, possibly recursive types)


def coerce(v, t, e):
    while not isinstance(t, str) and t[0] == "ref":
        t = ENVS["w"][t[1]]
    while not isinstance(e, str) and e[0] == "ref":
        e = ENVS["e"][e[1]]
    if e == "reserved":
        return None
    if e == "blobref":
        # host restriction of a BORROWED byte slice (native_standin only): it is a window of the input, so the wire value must
        # be a blob itself; any other vector does not coerce element by element into it
        return v if (not isinstance(t, str) and t[0] == "vec" and t[1] == "nat8") else FAIL
    if not isinstance(e, str) and e[0] == "opt":
        if t == "null" or t == "reserved":
            return None
        if not isinstance(t, str) and t[0] == "opt":
            if v is None:
                return None
            r = coerce(v[1], t[1], e[1])
            return None if r is FAIL else ("some", r)
        r = coerce(v, t, e[1])                     # not (null <: t): treated as an optional value if it coerces
        return None if r is FAIL else ("some", r)
    if isinstance(e, str):
        if t == e:
            return v
        if t == "nat" and e == "int":
            return v
        return FAIL
    if isinstance(t, str) or t[0] != e[0]:
        return FAIL
    if e[0] == "vec":
        out = []
        for x in v:
            r = coerce(x, t[1], e[1])
            if r is FAIL:
                return FAIL
            out.append(r)
        return out
    if e[0] == "record":
        wt, wv = dict(t[1]), dict(v)
        out = []
        for fid, et in e[1]:
            if fid in wt:
                r = coerce(wv[fid], wt[fid], et)
                if r is FAIL:
                    return FAIL
                out.append((fid, r))
            elif null_sub(et):
                out.append((fid, None))
            else:
                return FAIL
        return out
    et = dict(e[1])
    if v[1] not in et:
        return FAIL
    r = coerce(v[2], dict(t[1])[v[1]], et[v[1]])
    return FAIL if r is FAIL else ("variant", v[1], r)


def coerce_args(vals, tys, exps):
    out = []
    for k, e in enumerate(exps):
        if k < len(tys):
            r = coerce(vals[k], tys[k], e)
            if r is FAIL:
                return FAIL
            out.append(r)
        elif null_sub(e):
            out.append(None)
        else:
            return FAIL
    return out



def gen_rec_value(rnd, kind, depth=0):
    if kind == "List":
        return None if depth > 4 or rnd.random() < 0.3 else ("some", [(0, rnd.choice([0, 1, 300, 2 ** 64])), (1, gen_rec_value(rnd, "List", depth + 1))])
    if depth > 3 or rnd.random() < 0.4:
        return ("variant", 0, None)
    return ("variant", 1, [(0, gen_rec_value(rnd, "Tree", depth + 1)), (1, gen_rec_value(rnd, "Tree", depth + 1))])


WIRE_DEFS = {"List": ("opt", ("record", [(0, "nat"), (1, ("ref", "List"))])),
             "Tree": ("variant", [(0, "null"), (1, ("record", [(0, ("ref", "Tree")), (1, ("ref", "Tree"))]))])}
EXP_DEFS = [
    {"EList": ("opt", ("record", [(0, "int"), (1, ("ref", "EList"))]))},                                   # nat -> int all the way down
    {"EList": ("opt", ("record", [(0, "nat"), (1, ("ref", "EList")), (2, ("opt", "text"))]))},          # a new optional field
    {"EList": ("opt", ("record", [(0, "text"), (1, ("ref", "EList"))]))},                                  # head does not coerce: null at the first cell
    {"EList": ("opt", ("record", [(1, ("ref", "EList"))]))},                                                # head dropped
    {"EList": ("record", [(0, "nat"), (1, ("opt", ("ref", "EList")))])},                                    # not an option at the top: null list fails
    {"ETree": ("variant", [(0, "null"), (1, ("record", [(0, ("ref", "ETree")), (1, ("ref", "ETree"))])), (2, "nat")])},   # a new tag
    {"ETree": ("variant", [(1, ("record", [(0, ("ref", "ETree")), (1, ("ref", "ETree"))]))])},              # leaf tag removed: every finite tree fails
    {"ETree": ("variant", [(0, "null"), (1, ("record", [(0, ("ref", "ETree")), (1, ("opt", ("ref", "ETree")))]))])},  # right subtree optional
]


def show_defs(env):
    return ",".join(f"{n}={show(t)}" for n, t in env.items())


def signed_view(v, t):
    """the independent decoder of bounded_standin returns fixed-width integers unsigned: read int<N> as two's complement"""
    while not isinstance(t, str) and t[0] == "ref":
        t = ENVS["e"][t[1]]
    if isinstance(t, str):
        if t in FIXED and FIXED[t][1] and v is not None and v >= 1 << (8 * FIXED[t][0] - 1):
            return v - (1 << (8 * FIXED[t][0]))
        return v
    if t[0] == "opt":
        return None if v is None else ("some", signed_view(v[1], t[1]))
    if t[0] == "vec":
        return [signed_view(x, t[1]) for x in v]
    if t[0] == "record":
        return [(i, signed_view(x, ft)) for (i, x), (_, ft) in zip(v, t[1])]
    return ("variant", v[1], signed_view(v[2], dict(t[1])[v[1]]))


def run(pid, build_replay):
    t0 = time.time()
    exe, err = build_replay()
    if not exe:
        return {"undecided": [f"bounded stand-in: the real crate does not build: {err}"], "failures": []}
    scale = int(os.environ.get("VERIF_STANDIN_SCALE", "1"))
    rnd = random.Random(4000 + int(os.environ.get("VERIF_SEED", "0") or 0))
    cases = []
    for _ in range(4000 * (10 if scale > 1 else 1)):
        n = rnd.choice([0, 1, 1, 1, 2, 3])
        tys = [gen_type(rnd, 3) for _ in range(n)]
        vals = [gen_value(rnd, t) for t in tys]
        exps = list(tys)
        bad = rnd.random() < 0.5
        for _ in range(rnd.choice([0, 1, 1, 2, 3])):
            c = rnd.random()
            if c < 0.7 and exps:
                j = rnd.randrange(len(exps))
                exps[j] = edit(rnd, exps[j], bad)
            elif c < 0.8 and exps:
                exps.pop()                                    # surplus argument: dropped
            else:
                exps.append(rnd.choice([("opt", "nat"), "null", "reserved"]) if not bad or rnd.random() < 0.5 else "nat")
        msg = Enc().message(tys, vals)
        ENVS["w"], ENVS["e"] = {}, {}
        want = coerce_args(vals, tys, exps)
        NAMES.clear()
        for fid, nm in POOL_NAME.items():          # the expected types spell some labels by name: same id, same result
            if rnd.random() < 0.5:
                NAMES[fid] = nm
        cases.append((f"co {msg.hex()} {','.join(show(e) for e in exps) or '-'}", tys, vals, exps, want, {}, {}))
        # ill-formed value bytes are an error whatever is expected (also in a surplus argument, also below an opt):
        # one byte of one value made ill-formed, or the message cut short
        if rnd.random() < 0.4:
            e0 = Enc()
            e0.message(tys, vals)
            if e0.sites and rnd.random() < 0.8:
                bad_msg = Enc(poison=rnd.randrange(e0.sites)).message(tys, vals)
            else:
                bad_msg = msg[:-1]
            if bad_msg != msg:
                cases.append((f"co {bad_msg.hex()} {','.join(show(e) for e in exps) or '-'}", tys, "ill-formed value bytes", exps, FAIL, {}, {}))
        # no expected types at all: the message's own values come back (IDLArgs::from_bytes), whatever their types
        if rnd.random() < 0.25:
            cases.append((f"cu {msg.hex()} {','.join(show(t) for t in tys) or '-'}", tys, vals, tys, coerce_args(vals, tys, tys), {}, {}))
        # arbitrary damage (C06): one to three bytes changed, dropped or doubled anywhere in the message, header included.
        # Nothing is known about the result except that there is one: a value or an error, never a panic.
        if rnd.random() < 0.35:
            b = bytearray(msg)
            for _ in range(rnd.choice([1, 1, 2, 3])):
                if not b:
                    break
                j = rnd.randrange(len(b))
                c = rnd.random()
                if c < 0.6:
                    b[j] = rnd.choice([0x00, 0x01, 0x7f, 0x80, 0xff, b[j] ^ (1 << rnd.randrange(8)), rnd.getrandbits(8)])
                elif c < 0.8:
                    del b[j]
                else:
                    b.insert(j, b[j])
            cases.append((f"co {bytes(b).hex() or '00'} {','.join(show(e) for e in exps) or '-'}", tys, "arbitrary damage", exps, ANY, {}, {}))
        NAMES.clear()
    # (mutually) recursive types: lists and trees decoded at edited recursive expected types
    for _ in range(600 * (10 if scale > 1 else 1)):
        eenv = rnd.choice(EXP_DEFS)
        ename = next(iter(eenv))
        kind = "List" if ename == "EList" else "Tree"
        tys, vals, exps = [("ref", kind)], [gen_rec_value(rnd, kind)], [("ref", ename)]
        if rnd.random() < 0.3:
            exps = [("opt", ("ref", ename))]
        # a missing argument whose expected type is a NAME: it reads as null iff the name unfolds to opt / null / reserved
        for _ in range(rnd.choice([0, 0, 1, 1, 2])):
            nm, d = rnd.choice([("ONat", ("opt", "nat")), ("ANull", "null"), ("ARes", "reserved"), ("ANat", "nat"),
                                ("OO", ("ref", "ONat")), ("AText", "text")])
            eenv = dict(eenv)
            eenv[nm] = d
            if nm == "OO":
                eenv["ONat"] = ("opt", "nat")
            exps = exps + [("ref", nm)]
        msg = Enc(WIRE_DEFS).message(tys, vals)
        ENVS["w"], ENVS["e"] = WIRE_DEFS, eenv
        want = coerce_args(vals, tys, exps)
        cases.append((f"co {msg.hex()} {','.join(show(e) for e in exps)} {show_defs(eenv)}", tys, vals, exps, want, WIRE_DEFS, eenv))
    # expected types written with NAMED labels (quoted names may contain any character, commas included): the wire carries the
    # hash, the result is the same value
    for name in ["a,b", "x,name,unit", ",", "name", "id", "h\u00e9llo", "a\"b", "a b", "0", "", "_", "__", "_a"]:
        fid = idl_hash(name)
        others = [i for i in (1, 5) if i != fid]
        for kind in ("variant", "record"):
            if kind == "variant":
                wt = ("variant", sorted([(fid, "nat")] + [(i, "null") for i in others]))
                wv = ("variant", fid, 7)
            else:
                wt = ("record", sorted([(fid, "nat")] + [(i, "text") for i in others]))
                wv = [(i, (7 if i == fid else "z")) for i, _ in wt[1]]
            msg = Enc().message([wt], [wv])
            ENVS["w"], ENVS["e"] = {}, {}
            NAMES.clear()
            want = coerce_args([wv], [wt], [wt])
            NAMES[fid] = name
            cases.append((f"co {msg.hex()} {show(wt)}", [wt], [wv], [wt], want, {}, {}))
            NAMES.clear()
    p = subprocess.run([exe], input="\n".join(c[0] for c in cases) + "\n", capture_output=True, text=True, timeout=1800)
    outs = [l.strip() for l in p.stdout.splitlines()]
    if len(outs) != len(cases):
        return {"undecided": [f"bounded stand-in: replay produced {len(outs)} lines for {len(cases)} messages"], "failures": []}
    failures, nfail = [], 0
    for (cmd, tys, vals, exps, want, wenv, eenv), o in zip(cases, outs):
        ENVS["w"], ENVS["e"] = wenv, eenv
        nfail += want is FAIL
        why = None
        desc = f"values {vals} of types ({', '.join(show(t) for t in tys)}) at expected types ({', '.join(show(e) for e in exps)})"
        if want is ANY:
            if o != "err" and not o.startswith("ok "):
                why = ("a value or an error (the message was damaged at random; decoding must still return)", o[:160])
        elif want is FAIL:
            if o != "err":
                why = ("an error (the coercion relation has no result)", o[:160])
        elif not o.startswith("ok "):
            why = (f"the coerced values {want}", o[:160])
        else:
            try:
                _, dv = spec_decode(bytes.fromhex(o[3:]), want_types=False)
                dv = [signed_view(v, t) for v, t in zip(dv, exps)]
                if dv != want:
                    why = (f"the coerced values {want}", f"{dv}")
            except (SpecDecodeError, Exception) as e:   # noqa: B014
                why = ("a well-formed re-encoding of the result", f"{type(e).__name__}: {e}")
        if why:
            failures.append({
                "obligation": "bounded-standin::decode::the result of decoding at expected types is the specification's coercion", "unit": "bounded-standin",
                "item": "decoder (values)", "fn": "decode", "kind": "bounded-standin", "file": "rust/candid/src/de.rs", "line": 0,
                "source_text": "", "clause": None, "verifier_message": f"{desc}: expected {why[0]}, got {why[1]}",
                "witness": {"confirmed": True, "function": "candid::IDLArgs::from_bytes_with_types", "input": cmd[:600], "expected": str(why[0])[:300],
                            "got": str(why[1])[:300], "replay_cmd": f"echo '{cmd}' | {exe}"}})
            if len(failures) >= 3:
                break
    return {"failures": failures, "undecided": [], "obligations": 0, "discharged": 0, "trusted": [],
            "cmds": [f"{exe} < spec-encoded messages (bounded stand-in)"],
            "backends": ["BOUNDED stand-in (messages and reference results computed from spec/Candid.md; real decoder + encoder in the loop; not a proof)"],
            "samples": [],
            "bounded_standins": [{"functions": ["de.rs as a whole (untyped decoding at expected types): deserialize_with_type, argument sequencing, done(), "
                                                "record / variant / option / vector coercion, IDLValue visitor; value.rs annotate_type + encoder for the way back"],
                                  "bound": f"{len(cases)} seeded messages: 600 lists / trees of recursive types at 8 edited recursive expected types (with 0..2 further expected arguments that are missing on the wire and named: aliases of opt / null / reserved / nat / text), about 1000 messages decoded with no expected types (their own values must come back), about 1400 messages damaged at random (one to three bytes changed, dropped or doubled anywhere: a value or an error is demanded, never a panic), about 1600 messages with one value byte made ill-formed (bool byte, opt tag, variant index, first byte of a text) or cut short -- an error is demanded whatever is expected, also in surplus arguments --, both entry points (from_bytes_with_types, from_bytes_with_types_with_config) must agree, the rest of 0..3 non-recursive arguments (types of depth <= 3 over nat, int, fixed-width ints, bool, text, null, "
                                           f"reserved, opt, vec, record, variant), expected types = the argument types after 0..3 random edits; "
                                           f"{nfail} of them have no coercion (an error is demanded)",
                                  "vectors": len(cases), "disagreements": len(failures), "labelled": "bounded, NOT proved",
                                  "wall_s": round(time.time() - t0, 1)}]}
