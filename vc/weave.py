"""Extractor + weaver.

A *unit* is a template file (units/<U>.vu): Verus text with `//@@` directives.
`//@@ item ... //@@ end` blocks are replaced by the text of the named item taken
from /repo's current working tree, with the contract clauses woven in by
position.  Function bodies are never retyped; the only edits of extracted text
are (a) the logged rewrites requested by `//@@ rewrite` (R1..R7 of DESIGN §4.2)
and (b) pure insertions of specification text.

Directive reference

  //@@ include <path relative to units/>
  //@@ item <kind> <name> from <repo-relative file> [in `<impl header>`] [nth N]
        kind: fn | struct | enum | const | macro | type | impl | trait
  sub-directives (until `//@@ end`):
  //@@ ret <name>                name of the return value (default res)
  //@@ rename <newname>          (canaries use it internally)
  //@@ attr <text>               put an attribute line before the item
  //@@ requires / ensures / decreases / returns / opens_invariants
                                 following lines are the clause list
  //@@ loop <n>                  following lines: invariant/decreases for n-th loop
  //@@ before [nth N] `anchor`   following lines inserted before the anchor
  //@@ after  [nth N] `anchor`   following lines inserted after the anchor
  //@@ rewrite <rule> [count N|all|optional]  then a `//@@- old` line and a `//@@+ new` line
  //@@ keepattrs                 do not drop attributes / doc comments
  //@@ nocanary                  no `ensures false` twin for this fn
  //@@ closure [nth N] `|x|` as `|x: T| -> (o: R)`   R23: following lines = requires/ensures of that closure;
                                 its body is kept verbatim (wrapped in a block when it is a bare expression)
  //@@ splitchain                R17: `for P in A.chain(B) {BODY}` => two loops with the verbatim body
  //@@ sigonly                   keep only the signature (body replaced by `;`-less
                                 external_body stub: `{ unimplemented!() }`)

Everything else in the template is copied through.
"""
import hashlib
import os
import re
import sys

sys.path.insert(0, os.path.dirname(os.path.abspath(__file__)))
from rusttok import tokenize, match_close, norm  # noqa: E402

REPO = os.environ.get("VERIF_REPO", "/repo")
UNITS = os.path.join(os.path.dirname(os.path.dirname(os.path.abspath(__file__))), "units")


class WeaveError(Exception):
    """lost anchor / item not found / malformed template -> exit 2 (undecided)."""


# --------------------------------------------------------------------------
# item location
# --------------------------------------------------------------------------
ITEM_KW = {
    "fn": "fn", "struct": "struct", "enum": "enum", "const": "const",
    "type": "type", "trait": "trait", "macro": "macro_rules", "impl": "impl",
    "macrocall": "<expanded invocation of a local macro_rules!>",
}
_src_cache = {}


def read_repo(rel):
    p = os.path.join(REPO, rel)
    if p not in _src_cache:
        try:
            with open(p, encoding="utf-8") as f:
                s = f.read()
        except OSError as e:
            raise WeaveError(f"cannot read {p}: {e}")
        _src_cache[p] = (s, tokenize(s))
    return _src_cache[p]


def _find_sub(hay, needle, start=0, end=None):
    end = len(hay) if end is None else end
    n = len(needle)
    for i in range(start, end - n + 1):
        if hay[i:i + n] == needle:
            return i
    return -1


def _item_start(src, toks, i):
    """walk back from keyword token i over qualifiers and attributes."""
    j = i
    while j > 0:
        p = toks[j - 1]
        if p.kind == "id" and p.text in ("pub", "const", "unsafe", "async", "extern", "default"):
            j -= 1
            continue
        if p.kind == "str" and j >= 2 and toks[j - 2].text == "extern":
            j -= 1
            continue
        if p.text == ")" and j >= 2:
            # pub(crate)
            k = j - 1
            depth = 0
            while k >= 0:
                if toks[k].text == ")":
                    depth += 1
                elif toks[k].text == "(":
                    depth -= 1
                    if depth == 0:
                        break
                k -= 1
            if k >= 1 and toks[k - 1].text == "pub":
                j = k - 1
                continue
            break
        if p.text == "]":
            k = j - 1
            depth = 0
            while k >= 0:
                if toks[k].text == "]":
                    depth += 1
                elif toks[k].text == "[":
                    depth -= 1
                    if depth == 0:
                        break
                k -= 1
            if k >= 1 and toks[k - 1].text == "#":
                j = k - 1
                continue
            break
        break
    start = toks[j].start
    # include doc comments directly above (they are dropped later anyway)
    return j, start


def locate_item(rel, kind, name, within=None, nth=1):
    src, toks = read_repo(rel)
    texts = [t.text for t in toks]
    lo, hi = 0, len(toks)
    if within:
        # several blocks may share the header text (e.g. two `impl Nat {`): search them in order
        w = norm(within)
        start, last_err = 0, None
        while True:
            k = _find_sub(texts, w, start)
            if k < 0:
                if last_err:
                    raise last_err
                raise WeaveError(f"{rel}: enclosing block `{within}` not found")
            b = k + len(w)
            # the header text may be a prefix (long generic headers): run on to the block's `{`
            while b < len(toks) and toks[b].text not in ("{", ";", "}"):
                b += 1
            if b >= len(toks) or toks[b].text != "{":
                start = k + 1
                continue
            try:
                return _locate_in(rel, src, toks, texts, kind, name, b, match_close(toks, b), nth, within)
            except WeaveError as e:
                last_err = e
                start = k + 1
    return _locate_in(rel, src, toks, texts, kind, name, lo, hi, nth, within)


def _locate_in(rel, src, toks, texts, kind, name, lo, hi, nth, within):
    kw = ITEM_KW[kind]
    count = 0
    i = lo
    while i < hi:
        t = toks[i]
        if t.kind == "id" and t.text == kw:
            if kind == "macro":
                ok = texts[i + 1] == "!" and texts[i + 2] == name
            elif kind == "impl":
                w = norm(name)
                ok = texts[i:i + len(w)] == w
            else:
                ok = toks[i + 1].kind == "id" and texts[i + 1] == name
            if ok:
                count += 1
                if count == nth:
                    break
        i += 1
    else:
        raise WeaveError(f"{rel}: {kind} `{name}` (occurrence {nth}) not found"
                         + (f" inside `{within}`" if within else ""))
    j, start = _item_start(src, toks, i)
    # end of item: first `;` or matching `}` at bracket depth 0 after keyword
    k = i
    depth = 0
    end = None
    while k < len(toks):
        tx = toks[k].text
        if toks[k].kind == "punct":
            if tx in "([":
                depth += 1
            elif tx in ")]":
                depth -= 1
            elif tx == "{" and depth == 0:
                c = match_close(toks, k)
                end = toks[c].end
                # macro_rules! name { .. } may be followed by nothing; struct X {..}
                break
            elif tx == ";" and depth == 0:
                end = toks[k].end
                break
        k += 1
    if end is None:
        raise WeaveError(f"{rel}: cannot find end of {kind} `{name}`")
    return src, start, end


# --------------------------------------------------------------------------
# text with origin tracking
# --------------------------------------------------------------------------
class OText:
    """string + per-character origin line (0 = woven/inserted)."""

    def __init__(self, s, origin):
        self.s, self.o = s, origin

    @classmethod
    def from_source(cls, src, start, end):
        line = src.count("\n", 0, start) + 1
        o = []
        for ch in src[start:end]:
            o.append(line)
            if ch == "\n":
                line += 1
        return cls(src[start:end], o)

    def replace(self, a, b, new, inherit=True):
        org = self.o[a] if (inherit and a < len(self.o)) else 0
        self.s = self.s[:a] + new + self.s[b:]
        self.o = self.o[:a] + [org] * len(new) + self.o[b:]

    def insert(self, a, new):
        self.s = self.s[:a] + new + self.s[a:]
        self.o = self.o[:a] + [0] * len(new) + self.o[a:]

    def line_origins(self):
        out, cur = [], 0
        for ch, o in zip(self.s, self.o):
            if o and not cur:
                cur = o
            if ch == "\n":
                out.append(cur)
                cur = 0
        out.append(cur)
        return out


def split_chain(ot, log, what):
    """R17: `for P in A.chain(B) { BODY }` => `for P in A { BODY } for P in B { BODY }` (both copies are the
    verbatim body text; Verus has no specification for core::iter::Chain)."""
    n = 0
    while True:
        tk = tokenize(ot.s)
        hit = None
        for i, t in enumerate(tk):
            if not (t.kind == "id" and t.text == "for") or tk[i + 1].text == "<":
                continue
            j = i + 1
            while j < len(tk) and not (tk[j].kind == "id" and tk[j].text == "in"):
                j += 1
            dep, k = 0, j + 1
            while k < len(tk):
                tx = tk[k].text
                if tk[k].kind == "punct":
                    if tx in "([":
                        dep += 1
                    elif tx in ")]":
                        dep -= 1
                    elif tx == "{" and dep == 0:
                        break
                k += 1
            if k >= len(tk):
                continue
            dep, c = 0, None
            for m in range(j + 1, k):
                tx = tk[m].text
                if tk[m].kind == "punct" and tx in "([":
                    dep += 1
                elif tk[m].kind == "punct" and tx in ")]":
                    dep -= 1
                elif dep == 0 and tx == "." and tk[m + 1].text == "chain" and tk[m + 2].text == "(":
                    c = m
            if c is None or match_close(tk, c + 2) != k - 1:
                continue
            hit = (i, j, k, c)
            break
        if hit is None:
            break
        i, j, k, c = hit
        close = k - 1
        bc = match_close(tk, k)
        pat = ot.s[tk[i + 1].start:tk[j].start].strip()
        a_txt = ot.s[tk[j + 1].start:tk[c].start].strip()
        b_txt = ot.s[tk[c + 3].start:tk[close].start].strip()
        body = ot.s[tk[k].start:tk[bc].end]
        old = ot.s[tk[i].start:tk[k].start].strip()
        ot.replace(tk[i].start, tk[bc].end, f"for {pat} in {a_txt} {body}\n for {pat} in {b_txt} {body}")
        n += 1
        log.append({"rule": "R17 split a chained iteration into two consecutive loops with the same (verbatim) body",
                    "before": old + " { BODY }", "after": f"for {pat} in {a_txt} {{ BODY }} for {pat} in {b_txt} {{ BODY }}", "count": 1})
    if n == 0:
        raise WeaveError(f"{what}: splitchain: no `for .. in A.chain(B)` loop found")


DROP_ATTR = re.compile(
    r"^\s*#\[(inline(\(\w+\))?|doc\(hidden\)|cfg_attr\(.*|derive\(.*\)|must_use|allow\(.*\)|non_exhaustive|error\(.*\)|br\(.*\))\]\s*$")


def strip_attrs(ot, log):
    """R3/R4: drop doc comments, #[inline], derive lists, docsrs attrs (whole lines)."""
    lines = ot.s.split("\n")
    pos = 0
    spans = []
    for ln in lines:
        st = ln.strip()
        if st.startswith("///") or st.startswith("//!") or DROP_ATTR.match(ln):
            spans.append((pos, pos + len(ln) + 1, st))
        pos += len(ln) + 1
    for a, b, st in reversed(spans):
        b = min(b, len(ot.s))
        ot.replace(a, b, "", inherit=False)
        if not st.startswith("//"):
            log.append({"rule": "R3/R4 drop attribute", "before": st, "after": ""})
    if any(s[2].startswith("//") for s in spans):
        log.append({"rule": "R4 drop doc comments", "before": f"{sum(1 for s in spans if s[2].startswith('//'))} doc-comment lines", "after": ""})


# --------------------------------------------------------------------------
# weaving one item
# --------------------------------------------------------------------------
def _tok_find(ot_toks, anchor, nth, what):
    w = norm(anchor)
    texts = [t.text for t in ot_toks]
    k, start = 0, 0
    while True:
        i = _find_sub(texts, w, start)
        if i < 0:
            raise WeaveError(f"lost anchor `{anchor}` (occurrence {nth}) in {what}")
        k += 1
        if k == nth:
            return i, i + len(w) - 1
        start = i + 1


def _line_start(s, pos):
    j = s.rfind("\n", 0, pos)
    return j + 1


def _line_start_or(s, pos):
    """start of the line if only blanks precede pos on it, else pos."""
    p = _line_start(s, pos)
    return p if not s[p:pos].strip() else pos


def expand_macro_call(rel, name, nth, within=None, arg0=None):
    """R22: the nth invocation `name!( .. )` of a local `macro_rules! name` in `rel` is expanded textually (first arm whose
    pattern matches, as rustc does),
    the way rustc does for this shape: fragment variables `$x` (ident / expr / literal / ty) are substituted by the
    comma-separated arguments, a trailing `$($v:tt)*` takes the rest, `paste::item! { .. }` is unwrapped and its
    `[<a $x b>]` groups are concatenated into one identifier.  Returns (text, line of the invocation)."""
    src, toks = read_repo(rel)
    texts = [t.text for t in toks]
    # --- the definition
    d = None
    for i, t in enumerate(toks):
        if t.kind == "id" and t.text == "macro_rules" and texts[i + 1] == "!" and texts[i + 2] == name:
            d = i
            break
    if d is None:
        raise WeaveError(f"{rel}: macro_rules! {name} not found")
    ob = d + 3
    cb = match_close(toks, ob)
    # all arms: ( pattern ) => { body } ;
    arms, k = [], ob + 1
    while k < cb:
        if toks[k].text != "(":
            k += 1
            continue
        pc = match_close(toks, k)
        bo = pc + 1
        while texts[bo] != "{":
            bo += 1
        bc = match_close(toks, bo)
        arms.append((k, pc, bo, bc))
        k = bc + 1
    if not arms:
        raise WeaveError(f"{rel}: macro_rules! {name}: no arm found")
    # --- the invocation
    lo, hi = 0, len(toks)
    if within:
        w = norm(within)
        kk = _find_sub(texts, w, 0)
        if kk < 0:
            raise WeaveError(f"{rel}: enclosing block `{within}` not found")
        b = kk + len(w)
        while toks[b].text != "{":
            b += 1
        lo, hi = b, match_close(toks, b)
    count, inv = 0, None
    for i in range(lo, hi):
        if toks[i].kind == "id" and texts[i] == name and texts[i + 1] == "!" and texts[i + 2] == "(" and texts[i - 1] != "macro_rules":
            count += 1
            if arg0 is not None:
                # select the invocation by its first argument (robust against reordering the invocations)
                if texts[i + 3] == arg0 and texts[i + 4] == ",":
                    if inv is not None:
                        raise WeaveError(f"{rel}: more than one invocation {name}!({arg0}, ..)")
                    inv = i
            elif count == nth:
                inv = i
                break
    if inv is None:
        raise WeaveError(f"{rel}: invocation {arg0 if arg0 is not None else nth} of {name}! not found")
    ao, ac = inv + 2, match_close(toks, inv + 2)

    def try_arm(po, pc):
        """match the invocation tokens ao+1..ac against the arm's pattern po+1..pc; returns {var: text} or None"""
        binds, it, pk = {}, ao + 1, po + 1
        while pk < pc:
            if texts[pk] == "$" and texts[pk + 1] == "(":
                # $($v:tt)* : the rest of the invocation
                binds[("rest", texts[pk + 3])] = re.sub(r"\s+", " ", src[toks[it].start:toks[ac - 1].end]) if it < ac else ""
                it = ac
                pk = match_close(toks, pk + 1) + 2
            elif texts[pk] == "$":
                var, fk = texts[pk + 1], texts[pk + 3]
                if it >= ac:
                    return None
                if fk == "ident":
                    if toks[it].kind != "id":
                        return None
                    end = it + 1
                else:
                    dep, end = 0, it
                    while end < ac:
                        tx = texts[end]
                        if toks[end].kind == "punct" and tx in "([{":
                            dep += 1
                        elif toks[end].kind == "punct" and tx in ")]}":
                            dep -= 1
                        elif tx == "," and dep == 0:
                            break
                        end += 1
                binds[("one", var)] = src[toks[it].start:toks[end - 1].end].strip()
                it = end
                pk += 4
            else:
                if it >= ac or texts[it] != texts[pk]:
                    return None
                it += 1
                pk += 1
        return binds if it == ac else None

    chosen = None
    for (po, pc, bo, bc) in arms:
        bnd = try_arm(po, pc)
        if bnd is not None:
            chosen = (bnd, src[toks[bo].end:toks[bc].start])
            break
    if chosen is None:
        raise WeaveError(f"{rel}: {name}! invocation {nth} matches no arm of the macro")
    bnd, out = chosen
    for (kind_, pn), a_ in bnd.items():
        if kind_ == "rest":
            out = re.sub(r"\$\(\s*\$" + pn + r"\s*\)\s*\*", lambda m_, a_=a_: a_, out)
        else:
            out = re.sub(r"\$" + pn + r"\b", lambda m_, a_=a_: a_, out)
    # paste::item! { .. } -> its contents, with [< .. >] groups glued
    m = re.search(r"paste::item!\s*\{", out)
    if m:
        depth, j = 1, m.end()
        while depth:
            if out[j] == "{":
                depth += 1
            elif out[j] == "}":
                depth -= 1
            j += 1
        out = out[:m.start()] + out[m.end():j - 1] + out[j:]
    out = re.sub(r"\[<\s*([^<>\]]*?)\s*>\]", lambda m_: re.sub(r"\s+", "", m_.group(1)), out)
    if "$" in out:
        raise WeaveError(f"{rel}: {name}! expansion still contains `$`")
    line = src.count("\n", 0, toks[inv].start) + 1
    return out.strip() + "\n", line


def weave_item(hdr, subs, stats):
    kind, name, rel = hdr["kind"], hdr["name"], hdr["file"]
    what = f"{rel}::{name}"
    log = []
    if kind == "macrocall":
        text, line = expand_macro_call(rel, name, hdr.get("nth", 1), hdr.get("in"), hdr.get("arg0"))
        if hdr.get("pick"):
            # the expansion is an `impl` block: one of its functions is taken (`pick fn <name>`)
            tk_ = tokenize(text)
            fi_ = next((i for i, t in enumerate(tk_) if t.kind == "id" and t.text == "fn" and tk_[i + 1].text == hdr["pick"]), None)
            if fi_ is None:
                raise WeaveError(f"{what}: the expansion has no fn {hdr['pick']}")
            j_ = fi_
            while tk_[j_].text != "{":
                j_ += 1
            text = text[tk_[fi_].start:tk_[match_close(tk_, j_)].end] + "\n"
        ot = OText(text, [line] * len(text))
        orig_text = ot.s
        first_line = last_line = line
        log.append({"rule": "R22 textual expansion of one invocation of a local single-arm macro_rules! (fragment substitution, paste identifier gluing)",
                    "before": f"{name}!({hdr.get('arg0') or ''}..) invocation at line {line}", "after": "the function it generates", "count": 1})
        kind = "fn"
        mm_ = re.search(r"\bfn\s+(\w+)", text)
        if not mm_:
            raise WeaveError(f"{what}: the expansion is not a function")
        name = mm_.group(1)
        what = f"{rel}::{name}"
    else:
        src, start, end = locate_item(rel, kind, name, hdr.get("in"), hdr.get("nth", 1))
        ot = OText.from_source(src, start, end)
        orig_text = ot.s
        first_line = src.count("\n", 0, start) + 1
        last_line = src.count("\n", 0, end) + 1
    opts = {d["op"] for d in subs}
    if "keepattrs" not in opts:
        strip_attrs(ot, log)
    # 1. rewrites (structural rule R17 first, so that the textual rules can name the two loops it produces)
    if "splitchain" in opts:
        split_chain(ot, log, what)
    for d in subs:
        if d["op"] != "rewrite":
            continue
        old, new, cnt = d["old"], d["new"], d.get("count", 1)
        n = ot.s.count(old)
        if n == 0 and cnt == "optional":
            continue    # one of several alternative spellings (e.g. `>=` / `>`): each has its own twin
        if n == 0:
            raise WeaveError(f"rewrite {d['rule']}: text `{old}` not found in {what}")
        if cnt not in ("all", "optional") and n != cnt:
            raise WeaveError(f"rewrite {d['rule']}: `{old}` occurs {n}x in {what}, expected {cnt}")
        pos = 0
        while True:
            i = ot.s.find(old, pos)
            if i < 0:
                break
            ot.replace(i, i + len(old), new)
            pos = i + len(new)
        log.append({"rule": d["rule"], "before": old, "after": new, "count": n})
    # R10 (automatic): Verus rejects the wildcard closure parameter `|_|`; it is renamed `|_e|` wherever it occurs
    if kind == "fn" and re.search(r"\|\s*_\s*\|", ot.s):
        n10 = len(re.findall(r"\|\s*_\s*\|", ot.s))
        pos = 0
        while True:
            m10 = re.search(r"\|\s*_\s*\|", ot.s[pos:])
            if not m10:
                break
            ot.replace(pos + m10.start(), pos + m10.end(), "|_e|")
            pos += m10.start() + 4
        log.append({"rule": "R10 wildcard closure parameter renamed", "before": "|_|", "after": "|_e|", "count": n10})
    # R23: a closure gets a contract (Verus wants typed parameters, a named result and a block body for that);
    # the closure's body text is kept verbatim
    for d in sorted((d for d in subs if d["op"] == "closure"), key=lambda d: -d["nth"]):
        # occurrences are numbered on the unwoven text: later ones are handled first
        tk = tokenize(ot.s)
        a, b = _tok_find(tk, d["anchor"], d["nth"], what)
        j = b + 1
        if j >= len(tk):
            raise WeaveError(f"{what}: nothing after closure header `{d['anchor']}`")
        if tk[j].text == "{":
            body_s, body_e, block = tk[j].start, tk[match_close(tk, j)].end, True
        else:
            dep, k = 0, j
            while k < len(tk):
                tx = tk[k].text
                if tk[k].kind == "punct":
                    if tx in "([{":
                        dep += 1
                    elif tx in ")]}":
                        if dep == 0:
                            break
                        dep -= 1
                    elif tx in (",", ";") and dep == 0:
                        break
                k += 1
            body_s, body_e, block = tk[j].start, tk[k - 1].end, False
        body = ot.s[body_s:body_e]
        contract = "\n" + d["text"].rstrip() + "\n"
        if not block:
            ot.replace(body_e, body_e, " }")
            ot.replace(body_s, body_s, "{ ")
        ot.replace(tk[a].start, tk[b].end, d["sig"] + contract)
        log.append({"rule": "R23 closure given a contract (typed parameter, named result, block body; body text verbatim)",
                    "before": d["anchor"] + " " + " ".join(body.split())[:120], "after": d["sig"] + " requires/ensures .. { same body }"})
    for d in subs:
        if d["op"] == "receiver":
            tk = tokenize(ot.s)
            fi = next(i for i, t in enumerate(tk) if t.kind == "id" and t.text == "fn")
            po = next(i for i in range(fi, len(tk)) if tk[i].text == "(")
            if tk[po + 1].text != "self":
                raise WeaveError(f"{what}: receiver rewrite expects a by-value `self` receiver")
            ot.replace(tk[po + 1].start, tk[po + 1].end, d["text"])
            log.append({"rule": "R12 receiver: method of `impl Trait for &mut Deserializer` checked as inherent method",
                        "before": "self", "after": d["text"]})
    for d in subs:
        if d["op"] == "dropstmt":
            tk = tokenize(ot.s)
            a, b = _tok_find(tk, d["anchor"], d["nth"], what)
            # statement start
            k, dep = a - 1, 0
            while k >= 0:
                tx = tk[k].text
                if tk[k].kind == "punct":
                    if tx in (")", "]"):
                        dep += 1
                    elif tx in ("(", "["):
                        dep = max(0, dep - 1)
                    elif tx in ("{", ";", "}") and dep == 0:
                        break
                k -= 1
            first = k + 1
            # statement end: `;` at depth 0, or the end of a trailing block (if/else chains)
            dep, j, endtok = 0, a, None
            while j < len(tk):
                tx = tk[j].text
                if tk[j].kind == "punct":
                    if tx in "([":
                        dep += 1
                    elif tx in ")]":
                        dep -= 1
                    elif tx == ";" and dep == 0:
                        endtok = j
                        break
                    elif tx == "{" and dep == 0:
                        c = match_close(tk, j)
                        while c + 1 < len(tk) and tk[c + 1].text == "else":
                            kk = c + 1
                            while tk[kk].text != "{":
                                kk += 1
                            c = match_close(tk, kk)
                        endtok = c
                        if c + 1 < len(tk) and tk[c + 1].text == ";":
                            endtok = c + 1
                        break
                j += 1
            if endtok is None:
                raise WeaveError(f"{what}: cannot delimit the statement containing `{d['anchor']}`")
            dropped = ot.s[tk[first].start:tk[endtok].end]
            repl = (d.get("text") or "").strip()
            ot.replace(tk[first].start, tk[endtok].end, repl)
            log.append({"rule": "DROP statement (not verified)" if not repl else "REPLACE statement by an assumed twin (not verified)",
                        "before": " ".join(dropped.split())[:200], "after": repl})
    for d in subs:
        if d["op"] == "replaceblock":
            tk = tokenize(ot.s)
            a, b = _tok_find(tk, d["anchor"], d["nth"], what)
            j = b + 1
            while j < len(tk) and tk[j].text != "{":
                j += 1
            if j >= len(tk):
                raise WeaveError(f"{what}: no block after `{d['anchor']}`")
            c = match_close(tk, j)
            dropped = ot.s[tk[j].start:tk[c].end]
            ot.replace(tk[j].start, tk[c].end, d["text"].strip())
            log.append({"rule": "DROP block (not verified; replaced by an arbitrary result)",
                        "before": f"{dropped.count(chr(10)) + 1} lines after `{d['anchor']}`",
                        "after": d["text"].strip()})
    for d in subs:
        if d["op"] == "truncate":
            n = _truncate_casts(ot, set(d["types"]))
            log.append({"rule": "R8 mark integer `as` casts as truncating (Rust semantics)",
                        "before": "<e> as " + "|".join(d["types"]),
                        "after": "#[verifier::truncate] (<e> as T)", "count": n})
    # 2. insertions (compute on the rewritten text; apply back to front)
    toks = tokenize(ot.s)
    ins = []  # (pos, text, order)
    order = 0
    clauses = 0
    clauses += sum(_count_clauses(d["text"]) for d in subs if d["op"] == "closure")

    def add(pos, text):
        nonlocal order
        ins.append((pos, order, text))
        order += 1

    retname = next((d["name"] for d in subs if d["op"] == "ret"), "res")
    rename = next((d["name"] for d in subs if d["op"] == "rename"), None)
    canary = hdr.get("canary", False)
    if kind == "fn":
        # token indices
        fi = next(i for i, t in enumerate(toks) if t.kind == "id" and t.text == "fn")
        # body brace: first `{` at depth 0 after the parameter list
        depth, bi = 0, None
        arrow, where = None, None
        i = fi
        while i < len(toks):
            tx = toks[i].text
            if toks[i].kind == "punct":
                if tx in "([":
                    depth += 1
                elif tx in ")]":
                    depth -= 1
                elif tx == "->" and depth == 0 and arrow is None:
                    arrow = i
                elif tx == "{" and depth == 0:
                    bi = i
                    break
                elif tx == ";" and depth == 0:
                    break
            elif toks[i].kind == "id" and tx == "where" and depth == 0:
                where = i
            i += 1
        if bi is None:
            raise WeaveError(f"{what}: function has no body")
        body_close = match_close(toks, bi)
        if rename:
            nm = toks[fi + 1]
            ot_name_span = (nm.start, nm.end)
        spec_parts = []
        for key in ("requires", "ensures", "returns", "opens_invariants", "decreases"):
            txt = "\n".join(d["text"] for d in subs if d["op"] == key).strip()
            if key == "ensures" and canary:
                txt = (txt.rstrip().rstrip(",") + ",\n        false," if txt else "false,")
            if txt:
                spec_parts.append(f"    {key}\n        {txt}")
                clauses += _count_clauses(txt)
        if arrow is not None and (spec_parts):
            # name the return value: `-> T` => `-> (res: T)`
            rt_end_tok = where if where is not None else bi
            a = toks[arrow].end
            b = toks[rt_end_tok - 1].end
            rtype = ot.s[a:b].strip()
            if not rtype.startswith("(" + retname + ":"):
                add_replace = (a, b, f" ({retname}: {rtype})")
            else:
                add_replace = None
        else:
            add_replace = None
        if spec_parts:
            add(toks[bi].start, "\n" + "\n".join(spec_parts) + "\n")
        sigonly = "sigonly" in opts
        # loops
        loop_toks = [i for i in range(bi, body_close)
                     if toks[i].kind == "id" and toks[i].text in ("loop", "while", "for")
                     and not (toks[i].text == "for" and toks[i + 1].text == "<")]
        loops = []
        for li in loop_toks:
            dep, j = 0, li + 1
            if toks[li].text == "for":
                # the pattern may contain braces (`for Field { id, ty } in fs`): the body opens after `in`
                pd = 0
                while j < body_close and not (pd == 0 and toks[j].kind == "id" and toks[j].text == "in"):
                    if toks[j].kind == "punct" and toks[j].text in "([{":
                        pd += 1
                    elif toks[j].kind == "punct" and toks[j].text in ")]}":
                        pd -= 1
                    j += 1
            while j < body_close:
                tx = toks[j].text
                if toks[j].kind == "punct":
                    if tx in "([":
                        dep += 1
                    elif tx in ")]":
                        dep -= 1
                    elif tx == "{" and dep == 0:
                        break
                j += 1
            loops.append((li, j, match_close(toks, j)))

        def loop_at(n, op):
            if n > len(loops):
                raise WeaveError(f"{what}: {op} {n}: function has only {len(loops)} loops")
            return loops[n - 1]

        for d in subs:
            if d["op"] == "loop":
                li, lo, lc = loop_at(d["n"], "loop")
                add(toks[lo].start, "\n" + d["text"].rstrip() + "\n")
                clauses += _count_clauses(d["text"])
            elif d["op"] == "loopstart":
                li, lo, lc = loop_at(d["n"], "loopstart")
                add(toks[lo].end, "\n" + d["text"].rstrip() + "\n")
            elif d["op"] == "loopend":
                li, lo, lc = loop_at(d["n"], "loopend")
                add(_line_start_or(ot.s, toks[lc].start), d["text"].rstrip() + "\n")
            elif d["op"] == "beforeloop":
                li, lo, lc = loop_at(d["n"], "beforeloop")
                # a labelled loop / `let x = loop` keeps its prefix: insert at line start
                add(_line_start_or(ot.s, toks[li].start), d["text"].rstrip() + "\n")
            elif d["op"] == "afterloop":
                li, lo, lc = loop_at(d["n"], "afterloop")
                add(toks[lc].end, "\n" + d["text"].rstrip() + "\n")
            elif d["op"] == "bodystart":
                add(toks[bi].end, "\n" + d["text"].rstrip() + "\n")
            elif d["op"] == "bodyend":
                add(_line_start_or(ot.s, toks[body_close].start), d["text"].rstrip() + "\n")
            if d["op"] in ("loopstart", "loopend", "beforeloop", "afterloop", "bodystart", "bodyend"):
                clauses += len(re.findall(r"\bassert\b", d["text"]))
        want_loops = {d["n"] for d in subs if d["op"] == "loop"}
        stats["loops"] = stats.get("loops", 0) + len(loop_toks)
        stats["loops_with_invariant"] = stats.get("loops_with_invariant", 0) + len(want_loops)
    else:
        add_replace = None
        ot_name_span = None
        if rename:
            ki = next(i for i, t in enumerate(toks) if t.kind == "id" and t.text == ITEM_KW[kind])
            nm = toks[ki + 1]
            ot_name_span = (nm.start, nm.end)
    for d in subs:
        if d["op"] in ("before", "after"):
            a, b = _tok_find(toks, d["anchor"], d.get("nth", 1), what)
            if d["op"] == "before":
                # start of the statement that contains the anchor (the anchor may sit inside call arguments)
                k, dep = a - 1, 0
                while k >= 0:
                    tx = toks[k].text
                    if toks[k].kind == "punct":
                        if tx in (")", "]"):
                            dep += 1
                        elif tx in ("(", "["):
                            dep -= 1
                            if dep < 0:
                                dep = 0
                        elif tx == "}" and dep == 0:
                            # a closing brace ends the previous statement unless it closes a
                            # struct-literal / closure inside the current expression (dep > 0 handles calls)
                            break
                        elif tx in ("{", ";") and dep == 0:
                            break
                        elif tx == "}":
                            # skip a balanced block inside parentheses
                            bd = 1
                            k -= 1
                            while k >= 0 and bd:
                                if toks[k].text == "}":
                                    bd += 1
                                elif toks[k].text == "{":
                                    bd -= 1
                                k -= 1
                            continue
                    elif toks[k].kind == "id" and tx == "=>" and dep == 0:
                        break
                    k -= 1
                first = k + 1
                if toks[k].text == "=>" if k >= 0 else False:
                    first = a  # match-arm expression: cannot hold a statement; insert at the anchor
                st = toks[first].start
                p = _line_start(ot.s, st)
                if ot.s[p:st].strip():
                    add(st, " " + d["text"].strip() + " ")
                else:
                    add(p, d["text"].rstrip() + "\n")
            elif d.get("exact"):
                add(toks[b].end, "\n" + d["text"].rstrip() + "\n")
            else:
                # after the end of the statement that contains the anchor
                dep, j = 0, a
                endtok = None
                while j < len(toks):
                    tx = toks[j].text
                    if toks[j].kind == "punct":
                        if tx in "([":
                            dep += 1
                        elif tx in ")]":
                            dep -= 1
                            if dep < 0:
                                break
                        elif tx == ";" and dep == 0:
                            endtok = j
                            break
                        elif tx == "{" and dep == 0:
                            c = match_close(toks, j)
                            # if / else chains and match arms continue
                            while c + 1 < len(toks) and toks[c + 1].text == "else":
                                k = c + 1
                                while toks[k].text != "{":
                                    k += 1
                                c = match_close(toks, k)
                            endtok = c
                            if c + 1 < len(toks) and toks[c + 1].text == ";":
                                endtok = c + 1
                            break
                        elif tx == "}" and dep == 0:
                            break
                    j += 1
                if endtok is None:
                    raise WeaveError(f"{what}: cannot find end of statement after `{d['anchor']}`")
                add(toks[endtok].end, "\n" + d["text"].rstrip() + "\n")
            clauses += len(re.findall(r"\bassert\b", d["text"]))
    edits = [(p, o, ("ins", t)) for p, o, t in ins]
    if kind == "fn" and "sigonly" in opts:
        # assumed-contract stub: the body is verified in another unit against the same contract text
        edits = [e for e in edits if not (toks[bi].start < e[0] <= toks[body_close].end)]
        edits.append((toks[bi].start, 10 ** 6, ("rep", (toks[bi].start, toks[body_close].end, "{ unimplemented!() }"))))
    if add_replace:
        edits.append((add_replace[0], -1, ("rep", add_replace)))
    if rename and ot_name_span:
        edits.append((ot_name_span[0], -2, ("rep", (ot_name_span[0], ot_name_span[1], rename))))
    for p, o, (k, v) in sorted(edits, key=lambda e: (e[0], e[1]), reverse=True):
        if k == "ins":
            ot.insert(p, v)
        else:
            ot.replace(v[0], v[1], v[2])
    attrs = [d["text"] for d in subs if d["op"] == "attr"]
    if kind == "fn" and "sigonly" in opts:
        attrs.append("#[verifier::external_body]")
    if attrs:
        ot.insert(0, "\n".join(attrs) + "\n")
    meta = {
        "file": rel, "kind": kind, "name": _item_id(rel, name, hdr.get("in")),
        "lines": [first_line, last_line],
        "sha256": hashlib.sha256(orig_text.encode()).hexdigest(),
        "rewrites": log, "woven_clauses": clauses,
        "canary": "nocanary" not in opts and kind == "fn" and "sigonly" not in opts,
        "contracted": kind == "fn" and any(d["op"] in ("requires", "ensures") for d in subs) and "sigonly" not in opts,
        "assumed_stub": kind == "fn" and "sigonly" in opts,
    }
    return ot, meta


def _operand_start(toks, pos):
    """index of the first token of the unary/postfix expression ending at toks[pos]."""
    opener = {")": "(", "]": "["}
    while True:
        t = toks[pos]
        if t.kind == "punct" and t.text in opener:
            depth = 0
            k = pos
            while k >= 0:
                if toks[k].text in (")", "]", "}"):
                    depth += 1
                elif toks[k].text in ("(", "[", "{"):
                    depth -= 1
                    if depth == 0:
                        break
                k -= 1
            pos = k
            if pos > 0 and (toks[pos - 1].kind in ("id",) and toks[pos - 1].text not in
                            ("if", "while", "match", "return", "in", "let", "as", "else")
                            or toks[pos - 1].text in (")", "]", "?")):
                pos -= 1
                continue
            break
        if t.kind in ("id", "num", "str", "chr"):
            if pos > 1 and toks[pos - 1].text in (".", "::"):
                pos -= 2
                continue
            break
        if t.text == "?":
            pos -= 1
            continue
        break
    while pos > 0 and toks[pos - 1].text in ("-", "!", "*", "&") and (
            pos - 1 == 0 or toks[pos - 2].kind == "punct" and toks[pos - 2].text not in (")", "]")):
        pos -= 1
    return pos


def _truncate_casts(ot, types):
    n = 0
    while True:
        toks = tokenize(ot.s)
        done = True
        for i, t in enumerate(toks):
            if t.kind == "id" and t.text == "as" and i + 1 < len(toks) and toks[i + 1].text in types and i > 0:
                st = _operand_start(toks, i - 1)
                pre = ot.s[max(0, toks[st].start - 24):toks[st].start]
                if "#[verifier::truncate] (" in pre:
                    continue
                a, b = toks[st].start, toks[i + 1].end
                ot.insert(b, ")")
                ot.insert(a, "#[verifier::truncate] (")
                n += 1
                done = False
                break
        if done:
            return n


def _item_id(rel, name, within=None):
    parts = rel.split("/")
    crate = parts[1] if len(parts) > 2 and parts[0] == "rust" else parts[0]
    stem = os.path.splitext(parts[-1])[0]
    q = ""
    if within:
        tail = within.split(" for ")[-1]
        tail = re.sub(r"^impl\s*(<[^>]*>)?\s*", "", tail).strip()
        m = re.match(r"&?\s*(?:mut\s+)?([A-Za-z_][A-Za-z0-9_]*)", tail)
        if m:
            q = m.group(1) + "::"
    return f"{crate}/{stem}::{q}{name}"


def _count_clauses(txt):
    """count top-level comma separated clauses (ignoring keywords lines)."""
    depth, n, cur = 0, 0, False
    body = re.sub(r"//[^\n]*", "", txt)
    body = re.sub(r"\b(invariant|invariant_except_break|ensures|decreases|requires)\b", ",", body)
    for ch in body:
        if ch in "([{":
            depth += 1
        elif ch in ")]}":
            depth -= 1
        if ch == "," and depth == 0:
            if cur:
                n += 1
            cur = False
        elif not ch.isspace():
            cur = True
    return n + (1 if cur else 0)


# --------------------------------------------------------------------------
# template parsing
# --------------------------------------------------------------------------
_ITEM_RE = re.compile(
    r"^//@@\s*item\s+(\w+)\s+(`[^`]+`|\S+)\s+from\s+(\S+)(?:\s+in\s+`([^`]+)`)?(?:\s+nth\s+(\d+))?(?:\s+arg0\s+(\S+))?(?:\s+pick\s+fn\s+(\w+))?\s*$")


def parse_template(path, seen=None):
    """returns list of ('text', str) | ('item', hdr, subs)"""
    seen = seen or set()
    if path in seen:
        raise WeaveError(f"include cycle at {path}")
    seen = seen | {path}
    try:
        lines = open(path, encoding="utf-8").read().split("\n")
    except OSError as e:
        raise WeaveError(str(e))
    out = []
    i = 0
    buf = []
    while i < len(lines):
        ln = lines[i]
        st = ln.strip()
        if st.startswith("//@@ include"):
            if buf:
                out.append(("text", "\n".join(buf) + "\n", path))
                buf = []
            inc = st.split(None, 2)[2].strip()
            out.extend(parse_template(os.path.join(UNITS, inc), seen))
            i += 1
            continue
        m = _ITEM_RE.match(st)
        if m:
            if buf:
                out.append(("text", "\n".join(buf) + "\n", path))
                buf = []
            name = m.group(2).strip("`")
            hdr = {"kind": m.group(1), "name": name, "file": m.group(3)}
            if hdr["kind"] not in ITEM_KW:
                raise WeaveError(f"{path}:{i+1}: unknown item kind {hdr['kind']}")
            if m.group(4):
                hdr["in"] = m.group(4)
            if m.group(5):
                hdr["nth"] = int(m.group(5))
            if m.group(6):
                hdr["arg0"] = m.group(6)
            if m.group(7):
                hdr["pick"] = m.group(7)
            subs = []
            i += 1
            cur = None
            while True:
                if i >= len(lines):
                    raise WeaveError(f"{path}: unterminated //@@ item {name}")
                s2 = lines[i].strip()
                if s2.startswith("//@@"):
                    body = s2[4:].strip()
                    if body == "end":
                        i += 1
                        break
                    if body.startswith("use "):
                        inc = os.path.join(UNITS, body.split(None, 1)[1].strip())
                        try:
                            inc_lines = open(inc, encoding="utf-8").read().split("\n")
                        except OSError as e:
                            raise WeaveError(str(e))
                        lines[i:i + 1] = inc_lines
                        continue
                    cur = None
                    w = body.split(None, 1)
                    op = w[0]
                    rest = w[1] if len(w) > 1 else ""
                    if op in ("requires", "ensures", "decreases", "returns", "opens_invariants"):
                        cur = {"op": op, "text": ""}
                        subs.append(cur)
                    elif op == "loop":
                        cur = {"op": "loop", "n": int(rest), "text": ""}
                        subs.append(cur)
                    elif op in ("loopstart", "loopend", "beforeloop", "afterloop"):
                        cur = {"op": op, "n": int(rest), "text": ""}
                        subs.append(cur)
                    elif op in ("dropstmt", "replacestmt"):
                        mm = re.match(r"(?:nth\s+(\d+)\s+)?`(.*)`\s*$", rest)
                        if not mm:
                            raise WeaveError(f"{path}:{i+1}: bad {op} directive")
                        cur = {"op": "dropstmt", "anchor": mm.group(2), "nth": int(mm.group(1) or 1), "text": ""}
                        subs.append(cur)
                        if op == "dropstmt":
                            cur = None
                    elif op == "replaceblock":
                        mm = re.match(r"(?:nth\s+(\d+)\s+)?`(.*)`\s*$", rest)
                        if not mm:
                            raise WeaveError(f"{path}:{i+1}: bad replaceblock directive")
                        cur = {"op": "replaceblock", "anchor": mm.group(2), "text": "", "nth": int(mm.group(1) or 1)}
                        subs.append(cur)
                    elif op in ("bodystart", "bodyend"):
                        cur = {"op": op, "text": ""}
                        subs.append(cur)
                    elif op in ("before", "after", "afterexact"):
                        if op == "afterexact":
                            op = "after"
                            exact = True
                        else:
                            exact = False
                        mm = re.match(r"(?:nth\s+(\d+)\s+)?`(.*)`\s*$", rest)
                        if not mm:
                            raise WeaveError(f"{path}:{i+1}: bad {op} directive")
                        cur = {"op": op, "anchor": mm.group(2), "text": "", "exact": exact}
                        if mm.group(1):
                            cur["nth"] = int(mm.group(1))
                        subs.append(cur)
                    elif op == "rewrite":
                        mm = re.match(r"(\S+)(?:\s+count\s+(\d+)|\s+(all|optional))?\s*$", rest)
                        if not mm:
                            raise WeaveError(f"{path}:{i+1}: bad rewrite directive")
                        old = lines[i + 1].strip()
                        new = lines[i + 2].strip()
                        if not old.startswith("//@@-") or not new.startswith("//@@+"):
                            raise WeaveError(f"{path}:{i+1}: rewrite needs //@@- and //@@+ lines")
                        d = {"op": "rewrite", "rule": mm.group(1),
                             "old": old[5:].strip(), "new": new[5:].strip()}
                        d["count"] = int(mm.group(2)) if mm.group(2) else (mm.group(3) if mm.group(3) else 1)
                        subs.append(d)
                        i += 2
                    elif op == "closure":
                        mm = re.match(r"(?:nth\s+(\d+)\s+)?`(.*?)`\s+as\s+`(.*)`\s*$", rest)
                        if not mm:
                            raise WeaveError(f"{path}:{i+1}: bad closure directive")
                        cur = {"op": "closure", "anchor": mm.group(2), "sig": mm.group(3), "text": "",
                               "nth": int(mm.group(1) or 1)}
                        subs.append(cur)
                    elif op == "receiver":
                        subs.append({"op": "receiver", "text": rest.strip()})
                    elif op == "truncate":
                        subs.append({"op": "truncate", "types": rest.split()})
                    elif op in ("ret", "rename"):
                        subs.append({"op": op, "name": rest.strip()})
                    elif op == "attr":
                        subs.append({"op": "attr", "text": rest})
                    elif op in ("keepattrs", "nocanary", "sigonly", "splitchain"):
                        subs.append({"op": op})
                    else:
                        raise WeaveError(f"{path}:{i+1}: unknown directive {op}")
                else:
                    if cur is not None:
                        cur["text"] += lines[i] + "\n"
                    elif s2:
                        raise WeaveError(f"{path}:{i+1}: stray text inside //@@ item block: {s2}")
                i += 1
            out.append(("item", hdr, subs, path))
            continue
        if st.startswith("//@@"):
            raise WeaveError(f"{path}:{i+1}: unknown top-level directive: {st}")
        buf.append(ln)
        i += 1
    if buf:
        out.append(("text", "\n".join(buf) + "\n", path))
    return out


def build_unit(template, canaries=False, demote=(), lenient=None):
    """returns (text, line_map, items_meta, stats)

    line_map[k] (k = 0-based output line) = None | dict(file, line, item, canary)
    or {"tmpl": path, "line": n} for template text.
    """
    parts = parse_template(template)
    out_lines = []
    line_map = []
    metas = []
    stats = {}

    def emit(ot, tag):
        los = ot.line_origins()
        ls = ot.s.split("\n")
        for ln, o in zip(ls, los):
            out_lines.append(ln)
            m = dict(tag)
            m["line"] = o
            line_map.append(m)

    for p in parts:
        if p[0] == "text":
            ls = p[1].split("\n")
            if ls and ls[-1] == "":
                ls.pop()
            for k, ln in enumerate(ls):
                out_lines.append(ln)
                line_map.append({"tmpl": os.path.relpath(p[2], UNITS)})
        else:
            _, hdr, subs, path = p
            try:
                ot, meta = weave_item(hdr, subs, stats)
            except WeaveError as e:
                if lenient is None or hdr["kind"] not in ("fn", "macrocall"):
                    raise
                # fallback of vc/run.py (second attempt only): an anchor inside this function was lost.  Keep its
                # signature and contract as an assumed stub if that much can still be extracted, otherwise leave it out;
                # either way the function is reported as undecided and the rest of the unit is still checked.
                keep = [d for d in subs if d["op"] in ("requires", "ensures", "receiver", "attr", "ret", "rename", "nocanary")]
                keep += [dict(d, count="optional") for d in subs if d["op"] == "rewrite"]
                try:
                    ot, meta = weave_item(hdr, keep + [{"op": "sigonly"}], {})
                    meta["demoted"] = True
                    lenient.append(f"{hdr['file']}::{hdr['name']}: {e} (kept as assumed contract)")
                except WeaveError as e2:
                    lenient.append(f"{hdr['file']}::{hdr['name']}: {e} (left out: {e2})")
                    continue
            if demote and meta["name"] in demote and meta["kind"] in ("fn", "macrocall") and not meta["assumed_stub"]:
                # fallback of vc/run.py: a function whose changed text left the verifiable subset is kept as an
                # assumed contract (body dropped) so that the rest of the unit is still decided
                subs = subs + [{"op": "sigonly"}]
                ot, meta = weave_item(hdr, subs, {})
                meta["demoted"] = True
            metas.append(meta)
            emit(ot, {"file": hdr["file"], "item": meta["name"], "kind": hdr["kind"], "canary": False})
            if canaries and meta["canary"]:
                h2 = dict(hdr)
                h2["canary"] = True
                subs2 = [d for d in subs if d["op"] != "rename"] + [
                    {"op": "rename", "name": _short(meta["name"].split("::")[-1] if hdr["kind"] == "macrocall" else hdr["name"]) + "__canary"}]
                ot2, _ = weave_item(h2, subs2, {})
                emit(ot2, {"file": hdr["file"], "item": meta["name"], "kind": "fn", "canary": True})
    return "\n".join(out_lines) + "\n", line_map, metas, stats


def _short(name):
    return name


if __name__ == "__main__":
    import json
    text, lm, metas, stats = build_unit(sys.argv[1], canaries="--canary" in sys.argv)
    sys.stdout.write(text)
    sys.stderr.write(json.dumps({"items": metas, "stats": stats}, indent=1) + "\n")
