#!/bin/bash
# usage: vc/seed_confirm.sh <agent_out_dir> <i> <work_tree>
# confirms: demo passes on clean tree, change applies + compiles, whole suite passes with change, demo fails with change
OUT=$1; I=$2; WT=$3
export RUSTUP_TOOLCHAIN=stable-x86_64-unknown-linux-gnu CARGO_TARGET_DIR=/tmp/scratch_target RUST_BACKTRACE=0
cd $WT || exit 9
git checkout -q -f --detach $(git -C /repo rev-parse HEAD) && git clean -fdq -e _out
DEMO=$OUT/demo_$I.rs
# where does the demo go?
DEST=rust/candid/tests/zz_seed_demo.rs
if grep -q "ic_principal/tests" $DEMO 2>/dev/null; then DEST=rust/ic_principal/tests/zz_seed_demo.rs; fi
if grep -q "candid_parser/tests" $DEMO 2>/dev/null; then DEST=rust/candid_parser/tests/zz_seed_demo.rs; fi
PKG=$(echo $DEST | cut -d/ -f2)
cp $DEMO $DEST
cargo test --offline -p $PKG --test zz_seed_demo > $OUT/confirm_${I}_demo_clean.log 2>&1; A=$?
git apply $OUT/change_$I.diff || { echo "change_$I: APPLY-FAILED"; exit 8; }
cargo test --offline -p $PKG --test zz_seed_demo > $OUT/confirm_${I}_demo_changed.log 2>&1; B=$?
rm -f $DEST
cargo test --workspace --no-fail-fast --offline > $OUT/confirm_${I}_suite.log 2>&1; C=$?
git checkout -q -- . ; git clean -fdq -e _out
echo "change_$I: demo_clean_rc=$A demo_changed_rc=$B suite_rc=$C  => $([ $A -eq 0 ] && [ $B -ne 0 ] && [ $C -eq 0 ] && echo CONFIRMED || echo NOT-CONFIRMED)"
