"""BOUNDED stand-in (labelled bounded, never counted as proved) for types/subtype.rs, which neither installed
verifier can ingest (HashSet<(Type,Type)> memo of Rc trees, HashMap collect, iterator adapters, closures):

  the real `subtype_with_config` is run on a generated corpus of small (mutually) recursive type environments;
  every scenario asks a sequence of questions `t1 <: t2` against ONE memo (as the decoder does with `self.gamma`)
  and each question again with a fresh memo.  Both answers must equal the answer of an independent decision
  procedure written here from spec/Candid.md (greatest fixed point, assumptions = ancestors only, no memo).

Two obligations:
  * memo independence : the answer with the shared memo equals the answer with a fresh memo
  * spec agreement    : the answer with a fresh memo equals the specification's relation
"""
import os
import random
import subprocess
import time

PRIMS = ["nat", "int", "text", "null", "reserved", "empty", "bool", "principal"]


# ------------------------------------------------------------------ types: nested tuples
def show(t):
    k = t[0]
    if k == "prim":
        return t[1]
    if k == "ref":
        return "$" + t[1]
    if k in ("opt", "vec"):
        return ("o(" if k == "opt" else "v(") + show(t[1]) + ")"
    if k in ("rec", "var"):
        return ("r(" if k == "rec" else "V(") + ";".join(f"{i}:{show(x)}" for i, x in t[1]) + ")"
    if k == "func":
        return ("fq(" if t[3] else "f(") + ";".join(show(x) for x in t[1]) + ">" + ";".join(show(x) for x in t[2]) + ")"
    if k == "svc":
        return "s(" + ";".join(f"{n}:{show(x)}" for n, x in t[1]) + ")"
    raise ValueError(t)


def tuple_of(ts):
    return ("rec", tuple((i, t) for i, t in enumerate(ts)))


class Spec:
    """the subtyping relation of spec/Candid.md decided co-inductively (assume a pair while checking it)"""

    def __init__(self, env):
        self.env = env

    def unfold(self, t, n=0):
        while t[0] == "ref":
            t = self.env[t[1]]
            n += 1
            if n > 64:
                raise RecursionError
        return t

    def sub(self, a, b, assm=frozenset()):
        if a == b:
            return True
        if a[0] == "ref" or b[0] == "ref":
            key = (a, b)
            if key in assm:
                return True
            assm = assm | {key}
            if a[0] == "ref":
                return self.sub(self.env[a[1]], b, assm)
            return self.sub(a, self.env[b[1]], assm)
        ka, kb = a[0], b[0]
        if b == ("prim", "reserved") or a == ("prim", "empty"):
            return True
        if a == ("prim", "nat") and b == ("prim", "int"):
            return True
        if ka == "svc" and b == ("prim", "principal"):
            return True
        if ka == "vec" and kb == "vec":
            return self.sub(a[1], b[1], assm)
        if kb == "opt":
            return True      # null <: opt, opt t <: opt t', t <: opt t', and otherwise the special opt rule: always related
        if ka == "rec" and kb == "rec":
            fa = dict(a[1])
            for i, t2 in b[1]:
                if i in fa:
                    if not self.sub(fa[i], t2, assm):
                        return False
                else:
                    u = self.unfold(t2)
                    if not (u[0] == "opt" or u in (("prim", "null"), ("prim", "reserved"))):
                        return False
            return True
        if ka == "var" and kb == "var":
            fb = dict(b[1])
            return all(i in fb and self.sub(t1, fb[i], assm) for i, t1 in a[1])
        if ka == "svc" and kb == "svc":
            fa = dict(a[1])
            return all(n in fa and self.sub(fa[n], t2, assm) for n, t2 in b[1])
        if ka == "func" and kb == "func":
            return a[3] == b[3] and self.sub(tuple_of(b[1]), tuple_of(a[1]), assm) and self.sub(tuple_of(a[2]), tuple_of(b[2]), assm)
        return False


# ------------------------------------------------------------------ corpus
def gen_type(rnd, names, depth):
    r = rnd.random()
    if depth <= 0 or r < 0.25:
        return ("prim", rnd.choice(["nat", "int", "text", "null", "bool", "nat", "text", "reserved", "principal", "nat", "int", "empty"])) if rnd.random() < 0.5 \
            else ("ref", rnd.choice(names))
    if r < 0.40:
        return ("opt", gen_type(rnd, names, depth - 1))
    if r < 0.52:
        return ("vec", gen_type(rnd, names, depth - 1))
    if r < 0.80:
        ids = sorted(rnd.sample(range(4), rnd.randrange(1, 4)))
        return ("rec", tuple((i, gen_type(rnd, names, depth - 1)) for i in ids))
    if r < 0.90:
        ids = sorted(rnd.sample(range(4), rnd.choice([0, 1, 1, 1, 2, 2])))    # `variant {}` (no values, like empty) included
        return ("var", tuple((i, gen_type(rnd, names, depth - 1)) for i in ids))
    return ("func", tuple(gen_type(rnd, names, depth - 1) for _ in range(rnd.randrange(0, 2))),
            tuple(gen_type(rnd, names, depth - 1) for _ in range(rnd.randrange(0, 3))), rnd.random() < 0.2)


def gen_def(rnd, names):
    while True:
        t = gen_type(rnd, names, 2)
        if t[0] not in ("prim", "ref"):      # definitions are constructor-headed (productive)
            return t


def rename(t, m):
    k = t[0]
    if k == "prim":
        return t
    if k == "ref":
        return ("ref", m.get(t[1], t[1]))
    if k in ("opt", "vec"):
        return (k, rename(t[1], m))
    if k in ("rec", "var"):
        return (k, tuple((i, rename(x, m)) for i, x in t[1]))
    if k == "func":
        return (k, tuple(rename(x, m) for x in t[1]), tuple(rename(x, m) for x in t[2]), t[3])
    return (k, tuple((n, rename(x, m)) for n, x in t[1]))


def mutate(rnd, t):
    """one local change somewhere in t"""
    k = t[0]
    if k == "prim":
        return ("prim", rnd.choice([p for p in ("nat", "int", "text", "bool", "null") if p != t[1]]))
    if k == "ref":
        return ("opt", t) if rnd.random() < 0.5 else t
    if k in ("opt", "vec"):
        return (k, mutate(rnd, t[1])) if rnd.random() < 0.7 else t[1]
    if k in ("rec", "var"):
        fs = list(t[1])
        c = rnd.random()
        if c < 0.6 and fs:
            j = rnd.randrange(len(fs))
            fs[j] = (fs[j][0], mutate(rnd, fs[j][1]))
        elif c < 0.8 and len(fs) > 1:
            fs.pop(rnd.randrange(len(fs)))
        else:
            free = [i for i in range(6) if i not in dict(fs)]
            if free:
                fs.append((rnd.choice(free), ("prim", rnd.choice(["nat", "text", "null"])) if rnd.random() < 0.6
                           else ("opt", ("prim", "nat"))))
                fs.sort()
        return (k, tuple(fs))
    if k == "func":
        a, r = list(t[1]), list(t[2])
        if r and rnd.random() < 0.6:
            j = rnd.randrange(len(r))
            r[j] = mutate(rnd, r[j])
        elif a:
            j = rnd.randrange(len(a))
            a[j] = mutate(rnd, a[j])
        else:
            r.append(("prim", "nat"))
        return (k, tuple(a), tuple(r), t[3])
    return t


def scenario(rnd):
    n = rnd.randrange(2, 5)
    left = [f"L{i}" for i in range(n)]
    right = [f"R{i}" for i in range(n)]
    env = {}
    for nm in left:
        env[nm] = gen_def(rnd, left)
    m = dict(zip(left, right))
    for a, b in zip(left, right):
        t = rename(env[a], m)
        for _ in range(rnd.choice([0, 0, 1, 1, 2])):
            t = mutate(rnd, t)
        if t[0] in ("prim", "ref"):
            t = ("rec", ((0, t),))
        env[b] = t
    qs = []
    for _ in range(rnd.randrange(3, 8)):
        i, j = rnd.randrange(n), rnd.randrange(n)
        a, b = ("ref", left[i]), ("ref", right[j if rnd.random() < 0.3 else i])
        if rnd.random() < 0.25:
            a, b = b, a
        w = rnd.random()
        if w < 0.25:
            a, b = ("opt", a), ("opt", b)
        elif w < 0.35:
            a, b = ("func", (), (("opt", a), a), False), ("func", (), (("opt", b), b), False)
        elif w < 0.45:
            a, b = ("rec", ((0, ("opt", a)), (1, a))), ("rec", ((0, ("opt", b)), (1, b)))
        qs.append((a, b))
    return env, qs


def fixed_scenarios():
    A = ("rec", ((0, ("vec", ("ref", "C"))), (1, ("prim", "nat"))))
    B = ("rec", ((0, ("vec", ("ref", "D"))), (1, ("prim", "text"))))
    C = ("rec", ((0, ("ref", "A")),))
    D = ("rec", ((0, ("ref", "B")),))
    env = {"A": A, "B": B, "C": C, "D": D}
    rA, rB, rC, rD = (("ref", x) for x in "ABCD")
    return [
        # D5: C <: D was accepted while A <: B was assumed; A <: B then fails under opt
        (env, [(("opt", rA), ("opt", rB)), (rC, rD)]),
        (env, [(("func", (), (("opt", rA), rC), False), ("func", (), (("opt", rB), rD), False))]),
        (env, [(("func", (), (("opt", rA),), False), ("func", (), (("opt", rB),), False)),
               (("func", (), (rC,), False), ("func", (), (rD,), False))]),
        # a refuted pair must not stay in the memo
        (env, [(rA, rB), (rA, rB), (("opt", rA), ("opt", rB)), (rA, rB), (rC, rD)]),
        (env, [(rC, rD), (rC, rD), (("vec", rC), ("vec", rD))]),
    ]


def encode(env, qs):
    return ",".join(f"{n}={show(t)}" for n, t in env.items()) + "|" + ",".join(f"{show(a)}<{show(b)}" for a, b in qs)


def run(pid, build_replay):
    t0 = time.time()
    exe, err = build_replay()
    if not exe:
        return {"undecided": [f"bounded stand-in: the real crate does not build: {err}"], "failures": []}
    rnd = random.Random(1000 + int(os.environ.get("VERIF_SEED", "0") or 0))
    scs = fixed_scenarios() + [scenario(rnd) for _ in range(int(os.environ.get("VERIF_SUBTYPE_SCENARIOS", "1500")) * (100 if int(os.environ.get("VERIF_STANDIN_SCALE", "1")) > 1 else 1))]
    cmds = ["st " + encode(env, qs) for env, qs in scs]
    p = subprocess.run([exe], input="\n".join(cmds) + "\n", capture_output=True, text=True, timeout=900)
    outs = [l.strip() for l in p.stdout.splitlines()]
    failures, nq = [], 0

    def fail(ob, cmd, exp, got):
        failures.append({
            "obligation": "bounded-standin::subtype::" + ob, "unit": "bounded-standin", "item": "types/subtype.rs subtype_",
            "fn": "subtype_", "kind": "bounded-standin", "file": "rust/candid/src/types/subtype.rs", "line": 0, "source_text": "",
            "clause": None, "verifier_message": f"`{cmd}`: expected {exp}, got {got}",
            "witness": {"confirmed": True, "function": "candid::types::subtype::subtype_with_config", "input": cmd, "expected": exp,
                        "got": got, "replay_cmd": f"echo '{cmd}' | {exe}   # per query: <shared memo><fresh memo>"}})

    if len(outs) != len(cmds):
        return {"undecided": [f"bounded stand-in: replay produced {len(outs)} lines for {len(cmds)} scenarios"], "failures": []}
    for (env, qs), cmd, o in zip(scs, cmds, outs):
        if len(failures) >= 3:
            break
        if not o.startswith("ok"):
            fail("total on well-formed environments", cmd, "an answer for every query", o[:200])
            continue
        got = o[2:].split()
        spec = Spec(env)
        for k, ((a, b), g) in enumerate(zip(qs, got)):
            nq += 1
            want = "1" if spec.sub(a, b) else "0"
            q = f"query {k + 1} ({show(a)} <: {show(b)})"
            if g[1] != want:
                fail("answer with a fresh memo == the specification's relation", cmd, f"{q}: {want}", f"{g[1]}")
                break
            if g[0] != g[1]:
                fail("answer does not depend on earlier checks or failed probes sharing the memo", cmd,
                     f"{q}: {g[1]} (as with a fresh memo)", f"{g[0]} with the shared memo")
                break
    return {"failures": failures[:3], "undecided": [], "obligations": 0, "discharged": 0, "trusted": [],
            "cmds": [f"{exe} < subtype scenarios (bounded stand-in)"],
            "backends": ["BOUNDED stand-in (real crate vs an independent co-inductive decision procedure; not a proof)"], "samples": [],
            "bounded_standins": [{"functions": ["types/subtype.rs subtype_ / subtype_with_config (memo discipline and verdict)"],
                                  "bound": f"{len(scs)} scenarios: 5 fixed (the repaired stale-memo defect and its variants) + seeded random environments of 2..4 "
                                           "mutually recursive definitions (depth <= 2) and their mutated copies, 3..7 queries each against one shared memo",
                                  "vectors": nq, "disagreements": len(failures), "labelled": "bounded, NOT proved",
                                  "wall_s": round(time.time() - t0, 1)}]}
