"""Minimal Rust tokenizer, good enough to find items and match braces.

It understands line/block (nested) comments, string / raw string / byte string
literals, char literals vs lifetimes, and emits (kind, text, start, end) tuples
for everything that is not whitespace or a comment.  kinds: id, num, str, chr,
life, punct.  Multi-character punctuation is emitted one character at a time
except for `->`, `=>` and `::` which the weaver looks for.
"""
import re

_ID = re.compile(r"[A-Za-z_][A-Za-z0-9_]*")
_NUM = re.compile(r"[0-9][A-Za-z0-9_]*(\.[0-9][A-Za-z0-9_]*)?")


class Tok:
    __slots__ = ("kind", "text", "start", "end")

    def __init__(self, kind, text, start, end):
        self.kind, self.text, self.start, self.end = kind, text, start, end

    def __repr__(self):
        return f"Tok({self.kind},{self.text!r},{self.start})"


def tokenize(src, keep_comments=False):
    toks = []
    i, n = 0, len(src)
    while i < n:
        c = src[i]
        if c.isspace():
            i += 1
            continue
        if src.startswith("//", i):
            j = src.find("\n", i)
            j = n if j < 0 else j
            if keep_comments:
                toks.append(Tok("comment", src[i:j], i, j))
            i = j
            continue
        if src.startswith("/*", i):
            depth, j = 1, i + 2
            while j < n and depth:
                if src.startswith("/*", j):
                    depth += 1
                    j += 2
                elif src.startswith("*/", j):
                    depth -= 1
                    j += 2
                else:
                    j += 1
            if keep_comments:
                toks.append(Tok("comment", src[i:j], i, j))
            i = j
            continue
        # raw strings r"..", r#".."#, br#".."#
        m = re.match(r"(b|c)?r(#*)\"", src[i:i + 40])
        if m:
            hashes = m.group(2)
            close = '"' + hashes
            j = src.find(close, i + m.end())
            j = n if j < 0 else j + len(close)
            toks.append(Tok("str", src[i:j], i, j))
            i = j
            continue
        if c == '"' or (c in "bc" and i + 1 < n and src[i + 1] == '"'):
            j = i + (1 if c == '"' else 2)
            while j < n and src[j] != '"':
                j += 2 if src[j] == "\\" else 1
            j += 1
            toks.append(Tok("str", src[i:j], i, j))
            i = j
            continue
        if c == "'" or (c == "b" and i + 1 < n and src[i + 1] == "'"):
            k = i + (1 if c == "'" else 2)
            # char literal: '\..' or 'x' followed by '
            if k < n and src[k] == "\\":
                j = k + 2
                while j < n and src[j] != "'":
                    j += 1
                j += 1
                toks.append(Tok("chr", src[i:j], i, j))
                i = j
                continue
            if k + 1 < n and src[k + 1] == "'" and src[k] != "'":
                j = k + 2
                toks.append(Tok("chr", src[i:j], i, j))
                i = j
                continue
            if c == "'":
                m = _ID.match(src, k)
                if m:
                    toks.append(Tok("life", src[i:m.end()], i, m.end()))
                    i = m.end()
                    continue
        m = _ID.match(src, i)
        if m:
            toks.append(Tok("id", m.group(0), i, m.end()))
            i = m.end()
            continue
        m = _NUM.match(src, i)
        if m:
            toks.append(Tok("num", m.group(0), i, m.end()))
            i = m.end()
            continue
        for p in ("->", "=>", "::"):
            if src.startswith(p, i):
                toks.append(Tok("punct", p, i, i + 2))
                i += 2
                break
        else:
            toks.append(Tok("punct", c, i, i + 1))
            i += 1
    return toks


OPEN = {"(": ")", "[": "]", "{": "}"}
CLOSE = {")", "]", "}"}


def match_close(toks, idx):
    """toks[idx] is an opening bracket; return index of its closing bracket."""
    depth = 0
    for j in range(idx, len(toks)):
        t = toks[j]
        if t.kind == "punct":
            if t.text in OPEN:
                depth += 1
            elif t.text in CLOSE:
                depth -= 1
                if depth == 0:
                    return j
    raise ValueError("unbalanced brackets")


def norm(text):
    """token-normalised form of a text fragment (used to match anchors)."""
    return [t.text for t in tokenize(text)]
