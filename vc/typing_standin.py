#!/usr/bin/env python3
"""BOUNDED stand-in (labelled; not a proof) for the COMPLETENESS half of C14.

The deductive unit U11 proves the soundness direction on typing.rs (what is accepted is well formed).  Nothing there
says that a well-formed program IS accepted, and the uniqueness checks of the grammar actions are outside the unit.
Here small Candid programs are generated as text together with the verdict of an independent well-formedness decision
written from spec/Candid.md (names defined exactly once, no vacuous definition, unique field ids / method names /
argument names.., at most one function annotation, oneway without results, methods denote functions, the main
service is a service or a constructor returning one); the real `str::parse::<IDLProg>` + `check_prog` must agree."""
import os
import random
import subprocess
import time

PRIMS = ["nat", "int", "nat8", "int32", "text", "bool", "null", "reserved", "empty", "principal", "float64", "blob"]
KEYWORDS_OK_AS_FIELD = ["a", "b", "c", "name", "id", "x1", "_u", "value"]


def idl_hash(name):
    h = 0
    for b in name.encode():
        h = (h * 223 + b) % 2 ** 32
    return h


# ---------------------------------------------------------------- abstract syntax
# ("prim", p) | ("var", name) | ("opt", t) | ("vec", t) | ("record", [(label, t)]) | ("variant", [(label, t)])
# | ("func", [args], [rets], [modes]) | ("service", [(name, t)])        label = ("id", n) | ("name", s) | ("pos", k)
def gen_type(rnd, names, depth, want=None):
    r = rnd.random()
    if want == "func" or (want is None and depth > 0 and r < 0.12):
        return gen_func(rnd, names, depth - 1)
    if want == "service" or (want is None and depth > 0 and r < 0.2):
        return gen_service(rnd, names, depth - 1)
    if depth <= 0 or r < 0.45:
        if names and rnd.random() < 0.45:
            return ("var", rnd.choice(names))
        return ("prim", rnd.choice(PRIMS))
    if r < 0.55:
        return ("opt", gen_type(rnd, names, depth - 1))
    if r < 0.65:
        return ("vec", gen_type(rnd, names, depth - 1))
    kind = "record" if r < 0.85 else "variant"
    n = rnd.randrange(0, 4)
    fs, style = [], rnd.random()
    for k in range(n):
        if style < 0.3 and kind == "record":
            lab = ("pos", k)                                         # tuple shorthand: record { nat; text }
        elif rnd.random() < 0.6:
            lab = ("name", rnd.choice(KEYWORDS_OK_AS_FIELD))
        else:
            lab = ("id", rnd.choice([0, 1, 2, 5, 97, idl_hash("a"), idl_hash("name")]))
        fs.append((lab, gen_type(rnd, names, depth - 1)))
    return (kind, fs)


def gen_func(rnd, names, depth):
    def tup():
        # an argument / result may carry a name (documentation only, but the names of one tuple must be distinct)
        return [((rnd.choice(["x", "y", "x", "amount"]) if rnd.random() < 0.3 else None), gen_type(rnd, names, depth))
                for _ in range(rnd.randrange(0, 3))]
    args, rets = tup(), tup()
    modes = rnd.choice([[], [], ["query"], ["oneway"], ["composite_query"], ["query", "oneway"], ["query", "query"]])
    return ("func", args, rets, modes)


def gen_service(rnd, names, depth):
    ms = []
    for _ in range(rnd.randrange(0, 3)):
        nm = rnd.choice(["get", "set", "f", "g", "quoted name"])
        c = rnd.random()
        if c < 0.6:
            t = gen_func(rnd, names, depth)
        elif c < 0.9 and names:
            t = ("var", rnd.choice(names))
        else:
            t = gen_type(rnd, names, depth)
        ms.append((nm, t))
    return ("service", ms)


# ---------------------------------------------------------------- printing (Candid text)
def show_label(lab):
    if lab[0] == "id":
        return str(lab[1]) + " : "
    if lab[0] == "name":
        return (lab[1] if lab[1].replace("_", "a").isalnum() and not lab[1][0].isdigit() else '"' + lab[1] + '"') + " : "
    return ""


def show(t, in_service=False):
    k = t[0]
    if k == "prim":
        return t[1]
    if k == "var":
        return t[1]
    if k in ("opt", "vec"):
        return f"{k} {show(t[1])}"
    if k in ("record", "variant"):
        return k + " { " + "; ".join(show_label(l) + show(x) for l, x in t[1]) + " }"
    if k == "func":
        tup = lambda xs: "(" + ", ".join((n + " : " if n else "") + show(a) for n, a in xs) + ")"   # noqa: E731
        sig = tup(t[1]) + " -> " + tup(t[2]) + "".join(" " + m for m in t[3])
        return sig if in_service else "func " + sig
    ms = "; ".join((nm if " " not in nm else '"' + nm + '"') + " : " + (show(x, True) if x[0] == "func" else show(x)) for nm, x in t[1])
    return "service { " + ms + " }" if not in_service else "{ " + ms + " }"


# ---------------------------------------------------------------- the well-formedness decision (spec/Candid.md)
def label_id(lab, pos):
    if lab[0] == "id":
        return lab[1]
    if lab[0] == "name":
        return idl_hash(lab[1])
    return pos


def wf_type(t, defs):
    k = t[0]
    if k == "prim":
        return True
    if k == "var":
        return t[1] in defs
    if k in ("opt", "vec"):
        return wf_type(t[1], defs)
    if k in ("record", "variant"):
        ids, nxt = [], 0
        for lab, x in t[1]:
            # tuple shorthand numbering: an unlabelled field takes the next id after the previous field (records only)
            i = label_id(lab, nxt)
            nxt = i + 1
            ids.append(i)
            if i >= 2 ** 32 or not wf_type(x, defs):
                return False
        return len(set(ids)) == len(ids)
    if k == "func":
        if not all(wf_type(a, defs) for _, a in t[1] + t[2]):
            return False
        for tup in (t[1], t[2]):
            named = [n for n, _ in tup if n]
            if len(set(named)) != len(named):
                return False
        if len(t[3]) > 1:
            return False
        return not (t[3] == ["oneway"] and t[2])
    names = [nm for nm, _ in t[1]]
    if len(set(names)) != len(names):
        return False
    for _, x in t[1]:
        if not wf_type(x, defs) or not is_func(x, defs):
            return False
    return True


def resolve(t, defs, limit=50):
    while t[0] == "var" and limit:
        if t[1] not in defs:
            return None
        t, limit = defs[t[1]], limit - 1
    return None if t[0] == "var" else t


def is_func(t, defs):
    r = resolve(t, defs)
    return r is not None and r[0] == "func"


def is_service(t, defs):
    r = resolve(t, defs)
    return r is not None and r[0] == "service"


def wf_prog(decls, actor):
    names = [n for n, _ in decls]
    if len(set(names)) != len(names):
        return False
    defs = dict(decls)
    for n, t in decls:
        if not wf_type(t, defs):
            return False
        if resolve(t, defs) is None:                                 # vacuous: equal to itself through names only
            return False
    if actor is None:
        return True
    kind, args, body = actor
    if not all(wf_type(a, defs) for a in args):
        return False
    return wf_type(body, defs) and is_service(body, defs)


# ---------------------------------------------------------------- generation of whole programs
def gen_prog(rnd):
    n = rnd.randrange(0, 5)
    names = [f"T{i}" for i in range(n)]
    pool = names + (["Missing"] if rnd.random() < 0.12 else [])
    decls = []
    for nm in names:
        c = rnd.random()
        if c < 0.2 and pool:
            t = ("var", rnd.choice(pool))                           # aliases: chains and vacuous cycles arise here
        else:
            t = gen_type(rnd, pool, rnd.choice([1, 2, 2, 3]))
        decls.append((nm, t))
    if names and rnd.random() < 0.06:
        decls.append((rnd.choice(names), ("prim", "nat")))          # a second definition of the same name
    actor = None
    c = rnd.random()
    if c < 0.6:
        if rnd.random() < 0.5 and pool:
            body = ("var", rnd.choice(pool))
        else:
            body = gen_service(rnd, pool, 1)
        if rnd.random() < 0.3:
            actor = ("class", [gen_type(rnd, pool, 1) for _ in range(rnd.randrange(0, 3))], body)
        else:
            actor = ("service", [], body)
    return decls, actor


def gen_order_prog(rnd):
    """definitions whose ORDER must not matter: a function, aliases of it (chains), services whose methods are given by
    those names, functions that take / return the services -- written in a random order, with or without a main service;
    with some probability one alias leads to a non-function instead (then the program is ill formed)"""
    defs = [("f", gen_func(rnd, [], 0))]
    chain = ["f"]
    for nm in rnd.sample(["g", "h", "k"], rnd.randrange(1, 4)):
        defs.append((nm, ("var", rnd.choice(chain))))
        chain.append(nm)
    if rnd.random() < 0.25:
        defs.append(("n", ("prim", "nat")))
        chain.append("n")                                            # a name that does NOT denote a function
        if rnd.random() < 0.5:
            defs.append(("nn", ("var", "n")))
            chain.append("nn")
    svcs = []
    for nm in rnd.sample(["s", "t"], rnd.randrange(1, 3)):
        ms = [(m, ("var", rnd.choice(chain))) for m in rnd.sample(["get", "set", "f"], rnd.randrange(1, 3))]
        body = ("service", ms)
        c = rnd.random()
        if c < 0.5:
            defs.append((nm, body))
        elif c < 0.75:
            defs.append((nm, ("opt", body)))                         # the service sits inside another type
        else:
            defs.append((nm, ("func", [(None, body)], [], [])))
        svcs.append(nm)
    rnd.shuffle(defs)
    actor = None
    if rnd.random() < 0.5:
        ms = [(m, ("var", rnd.choice(chain))) for m in rnd.sample(["a", "b"], rnd.randrange(1, 3))]
        actor = ("service", [], ("service", ms))
    return defs, actor


def show_prog(decls, actor):
    out = [f"type {n} = {show(t)};" for n, t in decls]
    if actor:
        kind, args, body = actor
        b = body[1] if body[0] == "var" else show(body, True)
        if kind == "class":
            out.append("service : (" + ", ".join(show(a) for a in args) + ") -> " + b)
        else:
            out.append("service : " + b)
    return "\n".join(out)


def run(pid, build_replay):
    t0 = time.time()
    exe, err = build_replay()
    if not exe:
        return {"undecided": [f"bounded stand-in: the real crate does not build: {err}"], "failures": []}
    scale = int(os.environ.get("VERIF_STANDIN_SCALE", "1"))
    rnd = random.Random(9000 + int(os.environ.get("VERIF_SEED", "0") or 0))
    cases = []
    for _ in range(3000 * (10 if scale > 1 else 1)):
        decls, actor = gen_order_prog(rnd) if rnd.random() < 0.15 else gen_prog(rnd)
        text = show_prog(decls, actor)
        cases.append((f"tc {text.encode().hex() or '20'}", text, wf_prog(decls, actor)))
    p = subprocess.run([exe], input="\n".join(c[0] for c in cases) + "\n", capture_output=True, text=True, timeout=1800)
    outs = [l.strip() for l in p.stdout.splitlines()]
    if len(outs) != len(cases):
        return {"undecided": [f"bounded stand-in: replay produced {len(outs)} lines for {len(cases)} programs"], "failures": []}
    failures, nwf = [], 0
    for (cmd, text, want), o in zip(cases, outs):
        nwf += want
        if (o == "ok") != want or o not in ("ok", "err"):
            exp = "accepted (the program is well formed)" if want else "rejected (the program is not well formed)"
            failures.append({
                "obligation": "bounded-standin::typing::a program is accepted exactly when it is well formed", "unit": "bounded-standin",
                "item": "check_prog", "fn": "check_prog", "kind": "bounded-standin", "file": "rust/candid_parser/src/typing.rs", "line": 0,
                "source_text": "", "clause": None, "verifier_message": f"program\n{text}\nexpected {exp}, got {o}",
                "witness": {"confirmed": True, "function": "candid_parser::check_prog", "input": " ".join(text.split())[:500], "expected": exp,
                            "got": o, "replay_cmd": f"echo '{cmd}' | {exe}"}})
            if len(failures) >= 3:
                break
    return {"failures": failures, "undecided": [], "obligations": 0, "discharged": 0, "trusted": [],
            "cmds": [f"{exe} < generated programs (bounded stand-in)"],
            "backends": ["BOUNDED stand-in (generated programs with an independent well-formedness decision written from spec/Candid.md; real parser + check_prog; not a proof)"],
            "samples": [],
            "bounded_standins": [{"functions": ["candid_parser: grammar actions (label / method uniqueness), typing.rs check_prog as a whole -- the completeness "
                                                "direction (well formed => accepted) that U11 does not state"],
                                  "bound": f"{len(cases)} seeded programs of 0..5 definitions (aliases, records / variants with named, numbered and positional fields, "
                                           f"functions with 0..2 annotations, services, unbound and doubly defined names, vacuous alias cycles; about one in seven is a set of functions, alias chains to them and services naming them, written in a random order) with or without a main "
                                           f"service / service constructor; {nwf} of them well formed",
                                  "vectors": len(cases), "disagreements": len(failures), "labelled": "bounded, NOT proved",
                                  "wall_s": round(time.time() - t0, 1)}]}
