"""Witness engine (DESIGN §4.1 step 7): after an obligation of an extracted function fails (or the
unit is undecided because the changed code left the verifiable subset), look for a CONCRETE input on which
the real code disagrees with the specification, and make it replayable.

Strategy A (`extract_run`): leaf functions with no crate dependencies (the two idl_hash copies, the four
128-bit LEB128 codecs) are extracted textually from the current tree (same extractor as the proofs), put
behind a 30-line harness, compiled with the repository toolchain (overflow checks ON) and run on boundary
vectors; the expected values are computed here with Python big integers from the definitions in
spec/Candid.md.  A witness is therefore a (function, input, expected, got) tuple observed on the code that
is in /repo right now.
"""
import json
import os
import subprocess
import sys

HERE = os.path.dirname(os.path.abspath(__file__))
ROOT = os.path.dirname(HERE)
sys.path.insert(0, HERE)
import weave  # noqa: E402

WOUT = os.path.join(os.environ.get("VERIF_OUT") or os.path.join(ROOT, "out"), "witness")
TOOLCHAIN = os.environ.get("VERIF_REPO_TOOLCHAIN", "stable-x86_64-unknown-linux-gnu")


def _extract(rel, kind, name, within=None):
    src, a, b = weave.locate_item(rel, kind, name, within)
    return src[a:b]


def _build(name, text):
    os.makedirs(WOUT, exist_ok=True)
    rs = os.path.join(WOUT, name + ".rs")
    exe = os.path.join(WOUT, name)
    open(rs, "w").write(text)
    env = dict(os.environ, RUSTUP_TOOLCHAIN=TOOLCHAIN)
    p = subprocess.run(["rustc", "--edition", "2021", "-C", "debug-assertions=on", "-C", "overflow-checks=on",
                        "-A", "warnings", "-o", exe, rs], capture_output=True, text=True, env=env)
    if p.returncode:
        return None, p.stderr[-1500:]
    return exe, None


def _run(exe, lines):
    p = subprocess.run([exe], input="\n".join(lines) + "\n", capture_output=True, text=True, timeout=120)
    return p.stdout.splitlines()


# ------------------------------------------------------------------ reference definitions (spec/Candid.md)
def hash_ref(bs):
    h = 0
    for b in bs:
        h = (h * 223 + b) % 2 ** 32
    return h


def leb_ref(n):
    out = []
    while True:
        b = n & 0x7f
        n >>= 7
        if n:
            out.append(b | 0x80)
        else:
            out.append(b)
            return bytes(out)


def sleb_ref(i):
    out = []
    while True:
        b = i & 0x7f
        i >>= 7
        if (i == 0 and not b & 0x40) or (i == -1 and b & 0x40):
            out.append(b)
            return bytes(out)
        out.append(b | 0x80)


def leb_prefix(bs):
    for k, b in enumerate(bs):
        if not b & 0x80:
            return k + 1
    return None


def leb_val(bs):
    return sum((b & 0x7f) << (7 * i) for i, b in enumerate(bs))


def sleb_val(bs):
    v = leb_val(bs)
    return v - (1 << (7 * len(bs))) if bs[-1] & 0x40 else v


# ------------------------------------------------------------------ strategy A harnesses
HASH_HARNESS = """
%s
fn main() {
    let mut line = String::new();
    while std::io::stdin().read_line(&mut line).unwrap() > 0 {
        let hex = line.trim();
        let bytes: Vec<u8> = (0..hex.len() / 2).map(|i| u8::from_str_radix(&hex[2 * i..2 * i + 2], 16).unwrap()).collect();
        let s = String::from_utf8(bytes).unwrap();
        println!("{}", idl_hash(&s));
        line.clear();
    }
}
"""

LEB_HARNESS = """
use std::io;
#[derive(Debug)]
pub struct Error;
impl Error { pub fn msg<T: ToString>(_m: T) -> Self { Error } }
impl From<io::Error> for Error { fn from(_: io::Error) -> Self { Error } }
pub type Result<T = ()> = std::result::Result<T, Error>;
%s
fn hexd(hex: &str) -> Vec<u8> { (0..hex.len() / 2).map(|i| u8::from_str_radix(&hex[2 * i..2 * i + 2], 16).unwrap()).collect() }
fn hexe(b: &[u8]) -> String { b.iter().map(|x| format!("{:02x}", x)).collect() }
fn main() {
    let mut line = String::new();
    while std::io::stdin().read_line(&mut line).unwrap() > 0 {
        let mut parts: Vec<String> = line.trim().split(' ').map(|s| s.to_string()).collect();
        if parts.len() < 2 { parts.push(String::new()); }
        let r = std::panic::catch_unwind(|| {
            match parts[0].as_str() {
                "dn" => { let b = hexd(&parts[1]); let mut c = io::Cursor::new(&b[..]);
                    match decode_nat(&mut c) { Ok(v) => format!("ok {} {}", v, c.position()), Err(_) => format!("err {}", c.position()) } }
                "di" => { let b = hexd(&parts[1]); let mut c = io::Cursor::new(&b[..]);
                    match decode_int(&mut c) { Ok(v) => format!("ok {} {}", v, c.position()), Err(_) => format!("err {}", c.position()) } }
                "en" => { let v: u128 = parts[1].parse().unwrap(); let mut o = Vec::new(); encode_nat(&mut o, v).unwrap(); format!("ok {}", hexe(&o)) }
                "ei" => { let v: i128 = parts[1].parse().unwrap(); let mut o = Vec::new(); encode_int(&mut o, v).unwrap(); format!("ok {}", hexe(&o)) }
                _ => "bad".to_string(),
            }
        });
        match r { Ok(s) => println!("{}", s), Err(_) => println!("panic") }
        line.clear();
    }
}
"""


def _hash_vectors():
    v = ["", "a", "ab", "abc", "id", "name", "r#type", "é", "éè", "中文", "zü", "\U0001f600",
         "idgumu", "qiupcowi", "x" * 40, "Ab_9", "\x7f", "\x00"]
    return v


def _leb_strings():
    out = []
    pads = [0x00, 0x7f, 0x01, 0x7e, 0x02, 0x03, 0x04, 0x40, 0x3f, 0x7d]
    for n in (0, 1, 2, 8, 9, 10, 17, 18, 19, 20, 21, 25):
        for body in (0x80, 0xff, 0x81, 0xfe):
            for last in pads:
                out.append(bytes([body] * n + [last]))
                if n >= 18:
                    out.append(bytes([body] * 18 + [last | 0x80] + [0x80 if body == 0x80 else 0xff] * (n - 18) + [last]))
    for n in (0, 3, 19, 22):
        out.append(bytes([0x80] * n))  # unterminated
    for v in (0, 1, 63, 64, 127, 128, 2 ** 63, 2 ** 64 - 1, 2 ** 127, 2 ** 128 - 1, 2 ** 128, 2 ** 133):
        out.append(leb_ref(v) + b"\x55")
    for v in (-1, -64, -65, 63, 64, -2 ** 63, 2 ** 63, -2 ** 127, 2 ** 127 - 1, 2 ** 127, -2 ** 127 - 1, -2 ** 133):
        out.append(sleb_ref(v) + b"\xaa")
    return out


def _w(fn, inp, exp, got, cmd):
    return {"confirmed": True, "function": fn, "input": inp, "expected": exp, "got": got, "replay_cmd": cmd}


def _search_hash(rel, tag):
    try:
        text = _extract(rel, "fn", "idl_hash")
    except weave.WeaveError as e:
        return {"confirmed": False, "note": str(e)}
    exe, err = _build("hash_" + tag, HASH_HARNESS % text)
    if not exe:
        return {"confirmed": False, "note": "extracted function does not compile stand-alone: " + err}
    vecs = _hash_vectors()
    outs = _run(exe, [s.encode().hex() for s in vecs])
    for s, o in zip(vecs, outs):
        exp = hash_ref(s.encode())
        if o.strip() != str(exp):
            return _w(f"{rel}::idl_hash", repr(s), exp, o.strip(),
                      f"printf '%s\\n' {s.encode().hex()} | {exe}   # expected {exp} (spec hash of the UTF-8 bytes)")
    return {"confirmed": False, "note": f"{len(vecs)} boundary strings agree with the specification's hash"}


def _search_leb(fn):
    rel = "rust/candid/src/types/leb128.rs"
    try:
        text = "\n".join(_extract(rel, k, n) for k, n in
                         (("const", "CONTINUATION_BIT"), ("const", "SIGN_BIT"), ("fn", "encode_nat"), ("fn", "encode_int"),
                          ("fn", "decode_nat"), ("fn", "decode_int")))
    except weave.WeaveError as e:
        return {"confirmed": False, "note": str(e)}
    exe, err = _build("leb128", LEB_HARNESS % text)
    if not exe:
        return {"confirmed": False, "note": "extracted functions do not compile stand-alone: " + err}
    cmds, exps = [], []
    if fn in ("decode_nat", "decode_int"):
        op = "dn" if fn == "decode_nat" else "di"
        for s in _leb_strings():
            k = leb_prefix(s)
            if k is None:
                exp = "err"
            else:
                v = leb_val(s[:k]) if op == "dn" else sleb_val(s[:k])
                ok = (0 <= v < 2 ** 128) if op == "dn" else (-2 ** 127 <= v < 2 ** 127)
                exp = f"ok {v} {k}" if ok else f"err {k}"
            cmds.append(f"{op} {s.hex()}")
            exps.append(exp)
    else:
        op = "en" if fn == "encode_nat" else "ei"
        vals = [0, 1, 63, 64, 127, 128, 2 ** 63, 2 ** 64, 2 ** 126, 2 ** 127 - 1]
        if op == "en":
            vals += [2 ** 127, 2 ** 128 - 1]
        else:
            vals += [-1, -63, -64, -65, -128, -2 ** 63, -2 ** 69, -2 ** 126, -2 ** 127]
        for v in vals:
            cmds.append(f"{op} {v}")
            exps.append("ok " + (leb_ref(v) if op == "en" else sleb_ref(v)).hex())
    outs = _run(exe, cmds)
    for c, e, o in zip(cmds, exps, outs):
        o = o.strip()
        if e == "err":
            bad = not o.startswith("err")
        else:
            bad = o != e
        if bad:
            return _w(f"{rel}::{fn}", c, e, o, f"echo '{c}' | {exe}   # expected: {e}")
    return {"confirmed": False, "note": f"{len(cmds)} boundary vectors agree with mathematical (S)LEB128"}


def search(pid, f):
    """f: failure record of run.py (needs f['fn'], f['file'])"""
    fn, rel = f.get("fn"), f.get("file") or ""
    if fn == "idl_hash":
        return _search_hash(rel, "derive" if "candid_derive" in rel else "candid")
    if fn in ("decode_nat", "decode_int", "encode_nat", "encode_int") and rel.endswith("leb128.rs"):
        return _search_leb(fn)
    return {"confirmed": False, "note": "no concrete witness strategy for this function (Verus gives no counter-example)"}


if __name__ == "__main__":
    print(json.dumps(search("C09", {"fn": sys.argv[1], "file": sys.argv[2]}), indent=1))
