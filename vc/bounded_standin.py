"""Bounded stand-ins (LABELLED BOUNDED, never counted as proved): functions that could not be brought within
Verus' reach are run, on the real crate built from the current tree, over a stated finite set of inputs and
compared with the specification computed here with Python big integers.

  number.rs Nat::encode / Int::encode : all n = 2^k + d and -(2^k) + d, k <= 200, d in {-2..2}, plus 400 pseudo-random
                                        values up to 2^200 (seeded)  -> output must be exactly leb(n) / sleb(n)
"""
import os
import random
import subprocess
import sys
import time

HERE = os.path.dirname(os.path.abspath(__file__))
ROOT = os.path.dirname(HERE)
sys.path.insert(0, HERE)
import weave  # noqa: E402
from witness import leb_ref, sleb_ref, TOOLCHAIN  # noqa: E402


def build_replay():
    src = os.path.join(ROOT, "replay")
    outroot = os.environ.get("VERIF_OUT") or os.path.join(ROOT, "out")
    work = os.path.join(outroot, "replay_crate")
    os.makedirs(os.path.join(work, "src"), exist_ok=True)
    toml = open(os.path.join(src, "Cargo.toml")).read().replace("/repo/rust/", os.path.join(weave.REPO, "rust/"))
    open(os.path.join(work, "Cargo.toml"), "w").write(toml)
    for f in ("src/main.rs",):
        open(os.path.join(work, f), "w").write(open(os.path.join(src, f)).read())
    lock = os.path.join(weave.REPO, "Cargo.lock")
    if os.path.exists(lock):
        open(os.path.join(work, "Cargo.lock"), "w").write(open(lock).read())
    tgt = os.path.join(outroot, "replay_target")
    env = dict(os.environ, RUSTUP_TOOLCHAIN=TOOLCHAIN, CARGO_TARGET_DIR=tgt, CARGO_NET_OFFLINE="true")
    p = subprocess.run(["cargo", "build", "--offline", "--quiet"], cwd=work, env=env, capture_output=True, text=True)
    if p.returncode:
        return None, p.stderr[-1500:]
    return os.path.join(tgt, "debug", "candid_replay"), None


def bignum_encoders(pid):
    t0 = time.time()
    exe, err = build_replay()
    if not exe:
        return {"undecided": [f"bounded stand-in: the real crate does not build: {err}"], "failures": []}
    rnd = random.Random(int(os.environ.get("VERIF_SEED", "0") or 0))
    nats, ints = set(), set()
    scale = int(os.environ.get("VERIF_STANDIN_SCALE", "1"))
    kmax = 200 * (5 if scale > 1 else 1)
    for k in range(0, kmax + 1):
        for d in (-2, -1, 0, 1, 2):
            v = (1 << k) + d
            if v >= 0:
                nats.add(v)
            ints.add(v)
            ints.add(-(1 << k) + d)
    for _ in range(400 * scale):
        v = rnd.getrandbits(rnd.randrange(1, kmax + 1))
        nats.add(v)
        ints.add(v if rnd.random() < 0.5 else -v)
    cmds = [f"en {v}" for v in sorted(nats)] + [f"ei {v}" for v in sorted(ints)]
    exps = ["ok " + leb_ref(v).hex() for v in sorted(nats)] + ["ok " + sleb_ref(v).hex() for v in sorted(ints)]
    # the 128-bit host-integer encoders on the same values as far as they fit
    n128 = [v for v in sorted(nats) if v < 2 ** 128]
    i128 = [v for v in sorted(ints) if -2 ** 127 <= v < 2 ** 127]
    cmds += [f"e128n {v}" for v in n128] + [f"e128i {v}" for v in i128]
    exps += ["ok " + leb_ref(v).hex() for v in n128] + ["ok " + sleb_ref(v).hex() for v in i128]
    p = subprocess.run([exe], input="\n".join(cmds) + "\n", capture_output=True, text=True, timeout=300)
    outs = p.stdout.splitlines()
    failures = []
    for c, e, o in zip(cmds, exps, outs):
        if o.strip() != e:
            fn = {"en": "Nat::encode", "ei": "Int::encode", "e128n": "leb128::encode_nat", "e128i": "leb128::encode_int"}[c.split()[0]]
            failures.append({
                "obligation": f"bounded-standin::{fn}::output == {'leb' if c.split()[0] in ('en', 'e128n') else 'sleb'}(value)", "unit": "bounded-standin",
                "item": fn, "fn": "encode", "kind": "bounded-standin", "file": "rust/candid/src/types/number.rs", "line": 0,
                "source_text": "", "clause": None,
                "verifier_message": f"{fn}({c.split()[1]}) on the real crate wrote {o.strip()} but the minimal encoding is {e}",
                "witness": {"confirmed": True, "function": f"rust/candid/src/types/number.rs::{fn}", "input": c, "expected": e,
                            "got": o.strip(), "replay_cmd": f"echo '{c}' | {exe}   # expected: {e}"}})
            if len(failures) >= 3:
                break
    return {
        "failures": failures, "undecided": [],
        "obligations": 0, "discharged": 0,
        "trusted": [], "cmds": [f"{exe} < vectors (bounded stand-in)"],
        "backends": ["BOUNDED stand-in (concrete enumeration on the real crate; not a proof)"],
        "samples": [],
        "bounded_standins": [{"functions": ["number.rs Nat::encode", "number.rs Int::encode", "leb128.rs encode_nat", "leb128.rs encode_int"],
                              "bound": f"n = +-2^k + d, k <= {kmax}, d in -2..2, plus {400 * scale} seeded pseudo-random values < 2^{kmax}",
                              "vectors": len(cmds), "disagreements": len(failures), "labelled": "bounded, NOT proved",
                              "wall_s": round(time.time() - t0, 1)}],
    }


# ------------------------------------------------------------------ principal text form (IC interface spec)
def canon_text(b):
    import base64
    import zlib
    raw = zlib.crc32(b).to_bytes(4, "big") + b
    t = base64.b32encode(raw).decode().rstrip("=").lower()
    return "-".join(t[i:i + 5] for i in range(0, len(t), 5))


def principal_text(pid):
    """BOUNDED stand-in for ic_principal from_text / Display (data_encoding + crc32fast + str slicing are
    outside Verus' reach): every byte string of length <= 1 and a seeded sample of lengths 2..29 is printed and
    parsed back; every canonical text is also mutated (trailing / leading / moved / doubled dash, upper case,
    one flipped character, truncation) and the verdict compared with the specification."""
    t0 = time.time()
    exe, err = build_replay()
    if not exe:
        return {"undecided": [f"bounded stand-in: the real crate does not build: {err}"], "failures": []}
    rnd = random.Random(int(os.environ.get("VERIF_SEED", "0") or 0))
    blobs = [b""] + [bytes([i]) for i in range(256)]
    blobs += [bytes([a, b]) for a in range(0, 256, 5) for b in range(0, 256, 7)]
    for n in range(2, 30):
        for _ in range(12 * int(os.environ.get("VERIF_STANDIN_SCALE", "1"))):
            blobs.append(bytes(rnd.getrandbits(8) for _ in range(n)))
    cmds, exps = [], []
    for b in blobs:
        t = canon_text(b)
        cmds.append("pt " + b.hex()); exps.append("ok " + t)
        cmds.append("pf " + t); exps.append("ok " + b.hex())
        cmds.append("pf " + t.upper()); exps.append("ok " + b.hex())
    for b in blobs[::9]:
        t = canon_text(b)
        muts = [t + "-", "-" + t, t.replace("-", "", 1) if "-" in t else t + "a", t.replace("-", "--", 1) if "-" in t else t + "--",
                t[:-1], t + "a"]
        if len(t) > 6:
            muts.append(t[:2] + "-" + t[2:])            # extra dash at a wrong place
            k = rnd.randrange(len(t))
            if t[k] != "-":
                muts.append(t[:k] + ("b" if t[k] != "b" else "c") + t[k + 1:])  # one character changed
        for m in muts:
            if m == t or " " in m or not m:
                continue
            cmds.append("pf " + m); exps.append("err")
    for n in (30, 31, 40, 256, 260, 285):
        cmds.append("ps " + ("00" * n)); exps.append("err")
    for n in (0, 1, 29):
        cmds.append("ps " + ("07" * n)); exps.append("ok " + "07" * n)
    p = subprocess.run([exe], input="\n".join(cmds) + "\n", capture_output=True, text=True, timeout=600)
    outs = p.stdout.splitlines()
    failures = []
    for c, e, o in zip(cmds, exps, outs):
        o = o.strip()
        e = e.strip()
        bad = (not o.startswith("err")) if e == "err" else (o != e)
        if bad:
            fn = {"pt": "Display / to_text", "pf": "from_text", "ps": "try_from_slice"}[c[:2]]
            failures.append({
                "obligation": f"bounded-standin::Principal::{fn}", "unit": "bounded-standin", "item": fn, "fn": fn,
                "kind": "bounded-standin", "file": "rust/ic_principal/src/lib.rs", "line": 0, "source_text": "", "clause": None,
                "verifier_message": f"{fn}: input `{c[3:]}` gave `{o}`, the specification says `{e}`",
                "witness": {"confirmed": True, "function": f"rust/ic_principal/src/lib.rs::{fn}", "input": c, "expected": e, "got": o,
                            "replay_cmd": f"echo '{c}' | {exe}   # expected: {e}"}})
            if len(failures) >= 3:
                break
    return {"failures": failures, "undecided": [], "obligations": 0, "discharged": 0, "trusted": [],
            "cmds": [f"{exe} < vectors (bounded stand-in)"],
            "backends": ["BOUNDED stand-in (concrete enumeration on the real crate; not a proof)"], "samples": [],
            "bounded_standins": [{"functions": ["ic_principal Display/to_text", "ic_principal from_text", "try_from_slice (lengths 30..285)"],
                                  "bound": "all ids of length <= 1, a grid of length-2 ids, 12 seeded random ids per length 2..29; "
                                           "upper-case spelling of each; 6-8 single edits of every 9th canonical text",
                                  "vectors": len(cmds), "disagreements": len(failures), "labelled": "bounded, NOT proved",
                                  "wall_s": round(time.time() - t0, 1)}]}


# ------------------------------------------------------------------ an independent decoder written from spec/Candid.md
class SpecDecodeError(Exception):
    pass


class _Rd:
    def __init__(self, b):
        self.b, self.p = b, 0

    def byte(self):
        if self.p >= len(self.b):
            raise SpecDecodeError("truncated")
        v = self.b[self.p]
        self.p += 1
        return v

    def leb(self):
        v, s = 0, 0
        while True:
            x = self.byte()
            v |= (x & 0x7f) << s
            s += 7
            if not x & 0x80:
                return v

    def sleb(self):
        v, s = 0, 0
        while True:
            x = self.byte()
            v |= (x & 0x7f) << s
            s += 7
            if not x & 0x80:
                return v - (1 << s) if x & 0x40 else v

    def take(self, n):
        if self.p + n > len(self.b):
            raise SpecDecodeError("truncated")
        v = self.b[self.p:self.p + n]
        self.p += n
        return v


PRIM = {-1: "null", -2: "bool", -3: "nat", -4: "int", -5: "nat8", -6: "nat16", -7: "nat32", -8: "nat64", -9: "int8", -10: "int16",
        -11: "int32", -12: "int64", -13: "float32", -14: "float64", -15: "text", -16: "reserved", -17: "empty", -24: "principal"}
FIXED = {"nat8": 1, "nat16": 2, "nat32": 4, "nat64": 8, "int8": 1, "int16": 2, "int32": 4, "int64": 8, "float32": 4, "float64": 8}


def spec_decode(msg, want_types=True):
    """returns (types, values) of a Candid message; raises SpecDecodeError if it is not well formed per the spec
    (want_types=False: types are not unrolled -- needed for recursive type tables -- and None is returned for them)"""
    r = _Rd(msg)
    if r.take(4) != b"DIDL":
        raise SpecDecodeError("magic")
    n = r.leb()
    table = []
    for _ in range(n):
        op = r.sleb()
        if op == -18 or op == -19:
            table.append(("opt" if op == -18 else "vec", r.sleb()))
        elif op == -20 or op == -21:
            k = r.leb()
            fs, prev = [], -1
            for _ in range(k):
                i = r.leb()
                if i <= prev or i >= 2 ** 32:
                    raise SpecDecodeError("field ids not strictly ascending")
                prev = i
                fs.append((i, r.sleb()))
            table.append(("record" if op == -20 else "variant", fs))
        else:
            raise SpecDecodeError(f"table entry with opcode {op} (only composite types belong in the table)")

    def ref(t):
        if t >= 0:
            if t >= len(table):
                raise SpecDecodeError(f"type index {t} out of range")
            return t
        if t not in PRIM:
            raise SpecDecodeError(f"unknown primitive {t}")
        return PRIM[t]

    for e in table:
        if e[0] in ("opt", "vec"):
            ref(e[1])
        else:
            for _, t in e[1]:
                ref(t)
    na = r.leb()
    args = [ref(r.sleb()) for _ in range(na)]

    def ty(t):
        if isinstance(t, str):
            return t
        e = table[t]
        if e[0] in ("opt", "vec"):
            return (e[0], ty(ref(e[1])))
        return (e[0], [(i, ty(ref(x))) for i, x in e[1]])

    def val(t):
        if isinstance(t, str):
            if t in FIXED:
                return int.from_bytes(r.take(FIXED[t]), "little")
            if t == "nat":
                return r.leb()
            if t == "int":
                return r.sleb()
            if t == "text":
                return r.take(r.leb()).decode("utf-8")
            if t == "null" or t == "reserved":
                return None
            if t == "bool":
                b = r.byte()
                if b > 1:
                    raise SpecDecodeError("bool")
                return bool(b)
            if t == "principal":
                if r.byte() != 1:
                    raise SpecDecodeError("opaque reference")
                return ("principal", bytes(r.take(r.leb())))
            raise SpecDecodeError("value of type " + t)
        e = table[t]
        if e[0] == "opt":
            tag = r.byte()
            if tag > 1:
                raise SpecDecodeError("opt tag")
            return ("some", val(ref(e[1]))) if tag else None
        if e[0] == "vec":
            k = r.leb()
            return [val(ref(e[1])) for _ in range(k)]
        if e[0] == "record":
            return [(i, val(ref(x))) for i, x in e[1]]
        idx = r.leb()
        if idx >= len(e[1]):
            raise SpecDecodeError("variant index")
        return ("variant", e[1][idx][0], val(ref(e[1][idx][1])))

    vals = [val(a) for a in args]
    if r.p != len(msg):
        raise SpecDecodeError("trailing bytes")
    return ([ty(a) for a in args] if want_types else None), vals


WELLFORMED = object()


def encoder_corpus(pid):
    """BOUNDED stand-in for TypeSerialize::build_type / serialize and the composite value serializers:
    messages produced by the real encoder for a parametrised corpus are read back by the independent
    spec decoder above and compared with the (type, value) that was asked for."""
    t0 = time.time()
    exe, err = build_replay()
    if not exe:
        return {"undecided": [f"bounded stand-in: the real crate does not build: {err}"], "failures": []}

    def chain(k, n, leaf):
        t = leaf
        for _ in range(n):
            t = (k, t)
        return t

    cases = []
    for n in (1, 2, 5, 63, 64, 65, 100, 127, 128, 129):
        cases.append((f"tt optchain {n}", chain("opt", n, "nat8"), None))
        cases.append((f"tt vecchain {n}", chain("vec", n, "nat16"), []))
    for n in (0, 1, 127, 128, 129, 16383, 16384, 16385, 16511, 16512):
        cases.append((f"tt text {n}", "text", "a" * n))
        cases.append((f"tn text {n}", "text", "a" * n))
        cases.append((f"tt blob {n}", ("vec", "nat8"), [7] * n))
        cases.append((f"tn blob {n}", ("vec", "nat8"), [7] * n))
        cases.append((f"tt vecnat16 {n}", ("vec", "nat16"), [i & 0xffff for i in range(n)]))
        cases.append((f"tn vecnat16 {n}", ("vec", "nat16"), [i & 0xffff for i in range(n)]))
    for n in (0, 1, 200, 16384):
        cases.append((f"tn vecnat {n}", ("vec", "nat"), list(range(n))))
    cases.append(("tn vecbox64 4", ("vec", "nat64"), [0, 1, 2, 3]))
    cases.append(("tn vecrc64 4", ("vec", "nat64"), [0, 1, 2, 3]))
    cases.append(("tn vecbox16 4", ("vec", "nat16"), [0, 1, 2, 3]))
    cases.append(("tn vecref64 3", ("vec", "int64"), [0, 2 ** 64 - 1, 2 ** 64 - 2]))
    cases.append(("tn arr32 3", ("vec", "nat32"), [5, 6, 7]))
    for n in (1, 2, 64, 65, 130):
        cases.append((f"tt rec {n}", ("record", [(3 * i, "nat8") for i in range(n)]), [(3 * i, i & 0xff) for i in range(n)]))
        cases.append((f"tt var {n}", ("variant", [(2 * i, "null") for i in range(n)]), ("variant", 2 * (n - 1), None)))
    # untyped number literals encoded without a type: the type is int, the bytes are SLEB128 (edges of the 7-bit groups,
    # of the 64-bit range, both signs)
    for v in sorted({s * (2 ** k + d) for k in (0, 6, 7, 13, 14, 20, 21, 62, 63, 64, 70) for d in (-1, 0, 1) for s in (1, -1)} | {0, 100, 16000, -16000}):
        cases.append((f"tu number {v}", "int", v))
    for v in (64, 127, 8192, -65, 2 ** 64):
        cases.append((f"tu numrec {v}", ("record", [(1, "int")]), [(1, v)]))
        cases.append((f"tu numvec {v}", ("vec", "int"), [v, v]))
        cases.append((f"tu numopt {v}", ("opt", "int"), ("some", v)))
    # native values of std / library types with hand-written CandidType impls (impls.rs, number.rs, principal.rs, reserved.rs):
    # expected (type, value) written out here from the spec's type mapping; WELLFORMED = only "the spec decoder reads it" is demanded
    H = lambda n: __import__("coercion_standin").idl_hash(n)     # noqa: E731
    srt = lambda fs: sorted(fs)                                    # noqa: E731
    r3 = ("record", [(0, "nat8"), (1, ("opt", "nat8"))])
    res = ("variant", srt([(H("Ok"), "nat8"), (H("Err"), "text")]))
    for k, ety, ev in [
        (0, ("record", [(0, "nat8"), (1, "text"), (2, "bool")]), [(0, 1), (1, "a"), (2, True)]),
        (1, "nat64", 5), (2, "int64", 2 ** 64 - 5),
        (3, ("record", srt([(H("secs"), "nat64"), (H("nanos"), "nat32")])), srt([(H("secs"), 5), (H("nanos"), 7)])),
        (4, ("record", srt([(H("nanos_since_epoch"), "nat32"), (H("secs_since_epoch"), "nat64")])), srt([(H("nanos_since_epoch"), 7), (H("secs_since_epoch"), 5)])),
        (5, ("vec", ("record", [(0, "text"), (1, "nat8")])), [[(0, "a"), (1, 1)], [(0, "b"), (1, 2)]]),
        (6, ("vec", "int8"), [255, 3]), (7, ("vec", "nat16"), [1, 2, 3]),
        (8, ("opt", ("opt", ("opt", "nat8"))), ("some", None)),
        (9, res, ("variant", H("Ok"), 7)),
        (10, ("record", [(0, "text"), (1, "nat8"), (2, "text"), (3, "text")]), [(0, "x"), (1, 3), (2, "y"), (3, "z")]),
        (11, ("record", [(0, "nat8"), (1, "nat16"), (2, "nat32")]), [(0, 5), (1, 6), (2, 7)]),
        (13, "null", None), (14, WELLFORMED, None), (15, "text", "/a/b"), (16, WELLFORMED, None),
        (17, ("record", [(i, "nat8") for i in range(16)]), [(i, i) for i in range(16)]),
        (18, ("record", [(0, "int"), (1, "nat"), (2, "int")]), [(0, -2 ** 127), (1, 2 ** 128 - 1), (2, 2 ** 127 - 1)]),
        (19, ("record", [(0, res), (1, "text"), (2, "nat8"), (3, "nat8"), (4, ("opt", "nat8"))]),
         [(0, ("variant", H("Err"), "e")), (1, "s"), (2, 5), (3, 6), (4, ("some", 7))]),
        (20, ("vec", ("opt", ("vec", r3))), [("some", [[(0, 1), (1, None)]]), None]),
        (21, ("record", [(0, "reserved"), (1, ("opt", "reserved")), (2, "principal"), (3, "nat"), (4, "int")]),
         [(0, None), (1, ("some", None)), (2, ("principal", bytes([1, 2]))), (3, 300), (4, -300)]),
    ]:
        cases.append((f"te {k}", ety, ev))
    p = subprocess.run([exe], input="\n".join(c[0] for c in cases) + "\n", capture_output=True, text=True, timeout=600)
    outs = p.stdout.splitlines()
    failures = []
    for (cmd, ety, eval_), o in zip(cases, outs):
        o = o.strip()
        why = None
        if not o.startswith("ok "):
            why = "encoder returned " + o[:120]
        else:
            try:
                tys, vals = spec_decode(bytes.fromhex(o[3:]))
                if ety is WELLFORMED:
                    pass
                elif tys != [ety]:
                    why = f"independent decoder reads type {str(tys)[:160]} instead of {str([ety])[:160]}"
                elif vals != [eval_]:
                    why = f"independent decoder reads a different value ({str(vals)[:120]})"
            except SpecDecodeError as e:
                why = f"message is not well formed per spec/Candid.md: {e}"
            except Exception as e:  # malformed utf-8 etc.
                why = f"message is not well formed: {e}"
        if why:
            failures.append({
                "obligation": "bounded-standin::encoder output is read back by an independent spec decoder", "unit": "bounded-standin",
                "item": "IDLBuilder / TypeSerialize / ValueSerializer", "fn": "serialize", "kind": "bounded-standin",
                "file": "rust/candid/src/ser.rs", "line": 0, "source_text": "", "clause": None,
                "verifier_message": f"{cmd}: {why}\nmessage: {o[:400]}",
                "witness": {"confirmed": True, "function": "rust/candid/src/ser.rs (whole encoder)", "input": cmd,
                            "expected": "a message the spec decoder reads back as the requested (type, value)", "got": why,
                            "replay_cmd": f"echo '{cmd}' | {exe}"}})
            if len(failures) >= 3:
                break
    return {"failures": failures, "undecided": [], "obligations": 0, "discharged": 0, "trusted": [],
            "cmds": [f"{exe} < corpus (bounded stand-in)"],
            "backends": ["BOUNDED stand-in (real encoder output read back by an independent decoder written from the spec; not a proof)"],
            "samples": [],
            "bounded_standins": [{"functions": ["ser.rs TypeSerialize::build_type/serialize", "composite value serializers", "IDLValue serialisation"],
                                  "bound": "opt/vec chains of depth 1..129, text/blob/vec nat16 of length 0..16512 (typed-untyped and native paths), "
                                           "vec nat up to 16384, vectors of Box/Rc/& wrappers of fixed-width primitives, records/variants with 1..130 fields, "
                                           "untyped number literals at every 7-bit group edge encoded without a type (alone, in a record, a vector, an option), "
                                           "21 native values of std / library types with hand-written impls (tuples up to 16, usize / isize, Duration, SystemTime, maps, "
                                           "sets, arrays, nested options, Result, Box / Rc / Arc / Cow / RefCell / Cell / Reverse, PathBuf, 128-bit integers, references, "
                                           "Reserved, Principal, Nat, Int) against the (type, value) the spec mapping gives",
                                  "vectors": len(cases), "disagreements": len(failures), "labelled": "bounded, NOT proved",
                                  "wall_s": round(time.time() - t0, 1)}]}


def quota_corpus(pid):
    """BOUNDED stand-in for the unverified metering glue (utils.rs decode_args_with_config_debug, de.rs check_subtype /
    recoverable_visit_some / deserialize_with_type): for 10 messages with surplus arguments, surplus fields, a mismatched
    option, zero-sized vectors and function references the measured cost must not depend on the quotas supplied, a quota
    pair equal to the measured cost must reproduce the unmetered result, and every smaller decoding quota must fail
    with a QUOTA error (never another error, never a different value)."""
    t0 = time.time()
    exe, err = build_replay()
    if not exe:
        return {"undecided": [f"bounded stand-in: the real crate does not build: {err}"], "failures": []}

    def run(lines):
        p = subprocess.run([exe], input="\n".join(lines) + "\n", capture_output=True, text=True, timeout=600)
        return [l.strip() for l in p.stdout.splitlines()]

    failures, nvec = [], 0

    def fail(case, cmd, exp, got):
        failures.append({
            "obligation": "bounded-standin::quotas never change the result / cost is quota independent", "unit": "bounded-standin",
            "item": "decode_args_with_config_debug", "fn": "decode_args_with_config_debug", "kind": "bounded-standin",
            "file": "rust/candid/src/utils.rs", "line": 0, "source_text": "", "clause": None,
            "verifier_message": f"quota corpus message #{case}: `{cmd}` gave `{got[:200]}`, expected {exp}",
            "witness": {"confirmed": True, "function": "candid::utils::decode_args_with_config_debug", "input": cmd,
                        "expected": exp, "got": got[:300], "replay_cmd": f"echo '{cmd}' | {exe}"}})

    BIG1, BIG2 = 10 ** 9, 2 * 10 ** 9 + 7
    # C07 "the cost is at least the number of values materialised or skipped (zero-sized elements are not free)":
    # least (decoding, skipping) cost per message = number of values it carries / of values that are skipped
    MIN_COST = {1: (302, 301), 8: (200, 200), 9: (21, 20)}
    for case in range(10):
        base = run([f"q {case} - -", f"q {case} {BIG1} {BIG1}", f"q {case} {BIG2} {BIG2}"])
        nvec += 3
        if not all(b.startswith("ok ") for b in base):
            fail(case, f"q {case} - -", "ok (unmetered and generously metered decoding succeed)", " / ".join(base))
            continue
        val = base[0][3:].split(" | ")[0]
        costs = []
        for b in base[1:]:
            v, c = b[3:].split(" | ")
            cd, cs = [int(x[5:-1]) for x in c.split(" ")]
            costs.append((cd, cs))
            if v != val:
                fail(case, f"q {case} {BIG1} {BIG1}", f"the unmetered value {val[:80]}", v)
        if costs[0] != costs[1]:
            fail(case, f"q {case} {BIG2} {BIG2}", f"the same cost {costs[0]} as under quotas {BIG1}", str(costs[1]))
            continue
        cd, cs = costs[0]
        if case in MIN_COST and (cd < MIN_COST[case][0] or cs < MIN_COST[case][1]):
            fail(case, f"q {case} {BIG1} {BIG1}", f"a cost of at least {MIN_COST[case]} (one unit per value decoded or skipped)", str((cd, cs)))
        exact = run([f"q {case} {cd} {cs}"])[0]
        nvec += 1
        if not exact.startswith("ok ") or exact[3:].split(" | ")[0] != val:
            fail(case, f"q {case} {cd} {cs}", "ok with the unmetered value (quota = measured cost)", exact)
        lows = list(range(max(0, cd - 260), cd)) + list(range(0, max(0, cd - 260), max(1, cd // 60)))
        outs = run([f"q {case} {q} {cs}" for q in lows])
        nvec += len(lows)
        for q, o in zip(lows, outs):
            if o != "err QUOTA":
                fail(case, f"q {case} {q} {cs}", f"a quota error (decoding quota {q} < measured cost {cd})", o)
                break
        if len(failures) >= 3:
            break
    return {"failures": failures[:3], "undecided": [], "obligations": 0, "discharged": 0, "trusted": [],
            "cmds": [f"{exe} < quota corpus (bounded stand-in)"],
            "backends": ["BOUNDED stand-in (real decoder under quota sweeps; not a proof)"], "samples": [],
            "bounded_standins": [{"functions": ["utils.rs decode_args_with_config_debug", "de.rs check_subtype / recoverable_visit_some / deserialize_with_type (metering glue)"],
                                  "bound": "10 fixed messages (surplus args/fields, mismatched opt, vec null, func references, 200 / 20 surplus arguments of type null / reserved -- these and the vec null message with a least cost of one unit per value); quotas: none, two generous pairs, "
                                           "exactly the measured cost, every decoding quota in [cost-260, cost) and a coarse sweep below",
                                  "vectors": nvec, "disagreements": len(failures), "labelled": "bounded, NOT proved",
                                  "wall_s": round(time.time() - t0, 1)}]}


def history_corpus(pid):
    """BOUNDED stand-in for the thread-local type memo (types/mod.rs, internal.rs: thread_local!/RefCell, outside both
    tools): 8 (mutually) recursive / generic derived types (two of them with the same name in different modules, alone and in one message; and two local types of the same name AND path in different blocks, both encoded before either is decoded) are encoded and decoded in every order of up to 3 steps
    (plus type-derivation-only steps) on a fresh thread; every step must round-trip and produce the same bytes as the
    same step run alone on a fresh thread."""
    import itertools
    t0 = time.time()
    exe, err = build_replay()
    if not exe:
        return {"undecided": [f"bounded stand-in: the real crate does not build: {err}"], "failures": []}
    kinds = "TKLWVEABPQ"
    alone = {}
    cmds = [f"h {k}" for k in kinds]
    perms = ["".join(p) for r in (2, 3) for p in itertools.permutations(kinds, r)]
    perms += [a + b for a in "yz" for b in kinds] + [a + b + c for a in "yz" for b in "yz" for c in "TK"] + [k + k for k in kinds]
    cmds += [f"h {p}" for p in perms]
    p = subprocess.run([exe], input="\n".join(cmds) + "\n", capture_output=True, text=True, timeout=900)
    outs = [l.strip() for l in p.stdout.splitlines()]
    failures = []

    def fail(cmd, exp, got):
        failures.append({
            "obligation": "bounded-standin::round trip does not depend on what ran before on the thread", "unit": "bounded-standin",
            "item": "type memo (types/mod.rs, internal.rs)", "fn": "env", "kind": "bounded-standin", "file": "rust/candid/src/types/internal.rs",
            "line": 0, "source_text": "", "clause": None, "verifier_message": f"`{cmd}`: expected {exp}, got {got[:300]}",
            "witness": {"confirmed": True, "function": "candid encode/decode of derived recursive types", "input": cmd, "expected": exp,
                        "got": got[:300], "replay_cmd": f"echo '{cmd}' | {exe}"}})

    for k, o in zip(kinds, outs[:len(kinds)]):
        if not o.startswith("ok ") or any(x in o for x in ("ERR", "DIFF", "panic")):
            fail(f"h {k}", "a successful round trip on a fresh thread", o)
        else:
            alone[k] = o[3:].split(":", 1)[1]
    for perm, o in zip(perms, outs[len(kinds):]):
        if len(failures) >= 3:
            break
        if not o.startswith("ok "):
            fail(f"h {perm}", "round trips", o)
            continue
        for step in o[3:].split(" "):
            k, _, v = step.partition(":")
            if k in alone and v != alone[k]:
                fail(f"h {perm}", f"step {k} to behave as on a fresh thread", step)
                break
    return {"failures": failures[:3], "undecided": [], "obligations": 0, "discharged": 0, "trusted": [],
            "cmds": [f"{exe} < history corpus (bounded stand-in)"],
            "backends": ["BOUNDED stand-in (real crate, orders of earlier calls on one thread; not a proof)"], "samples": [],
            "bounded_standins": [{"functions": ["types/mod.rs + internal.rs thread-local type memo (env, ID, knot)", "ser.rs IDLBuilder::new env_clear"],
                                  "bound": "6 value kinds over 5 recursive/generic derived types; all ordered selections of 2 and 3 kinds, "
                                           "type-derivation-only prefixes, repeated kinds; each on a fresh thread",
                                  "vectors": len(cmds), "disagreements": len(failures), "labelled": "bounded, NOT proved",
                                  "wall_s": round(time.time() - t0, 1)}]}


def derive_order(pid):
    """BOUNDED stand-in for candid_derive/src/derive.rs (syn code, outside both tools): for six derived types with raw
    identifiers, non-ASCII renames and near-colliding names the derived field/variant list must be labelled with the
    unraw / renamed names and be strictly ascending by the specification's hash of those names."""
    from witness import hash_ref
    t0 = time.time()
    exe, err = build_replay()
    if not exe:
        return {"undecided": [f"bounded stand-in: the real crate does not build: {err}"], "failures": []}
    p = subprocess.run([exe], input="dv\n", capture_output=True, text=True, timeout=120)
    o = p.stdout.strip()
    want = [{"type", "name"}, {"fn", "id"}, {"é", "b", "zü"}, {"match", "loop", "plain", "async"}, {"é", "B", "Type", "Zz"}, {"abc", "abc2", "abd"}]
    failures = []

    def fail(exp, got):
        failures.append({
            "obligation": "bounded-standin::derived fields are labelled by name and ordered by the spec hash", "unit": "bounded-standin",
            "item": "candid_derive", "fn": "derive", "kind": "bounded-standin", "file": "rust/candid_derive/src/derive.rs", "line": 0,
            "source_text": "", "clause": None, "verifier_message": f"dv: expected {exp}, got {got[:300]}",
            "witness": {"confirmed": True, "function": "#[derive(CandidType)]", "input": "dv", "expected": exp, "got": got[:300],
                        "replay_cmd": f"echo dv | {exe}"}})

    if not o.startswith("ok "):
        fail("six derived types", o)
    else:
        for i, (lst, names) in enumerate(zip(o[3:].split(" "), want)):
            labs = [bytes.fromhex(x[2:]).decode() if x.startswith("n:") else x for x in lst.split(",")]
            if set(labs) != names:
                fail(f"type #{i} to have the fields {sorted(names)}", str(labs))
                continue
            ids = [hash_ref(n.encode()) for n in labs]
            if ids != sorted(ids) or len(set(ids)) != len(ids):
                fail(f"type #{i}: fields strictly ascending by hash", f"{labs} with ids {ids}")
    return {"failures": failures[:3], "undecided": [], "obligations": 0, "discharged": 0, "trusted": [],
            "cmds": [f"echo dv | {exe}"], "backends": ["BOUNDED stand-in (real derive macro on six types; not a proof)"], "samples": [],
            "bounded_standins": [{"functions": ["candid_derive/src/derive.rs fields_from_ast / enum variants: sort by hash, rename, raw identifiers"],
                                  "bound": "6 derived types: raw identifiers (r#type, r#fn, r#match, r#loop, r#async, r#abc2), non-ASCII renames, enum variants",
                                  "vectors": 6, "disagreements": len(failures), "labelled": "bounded, NOT proved",
                                  "wall_s": round(time.time() - t0, 1)}]}


if __name__ == "__main__":
    if "--prebuild" in sys.argv:
        exe, err = build_replay()
        print("replay crate:", exe or ("BUILD FAILED: " + str(err)[-300:]))


def scalar_roundtrip(pid):
    """BOUNDED stand-in for the native encode -> decode chain of scalars through serde (visitors of Nat / Int, the
    fixed-width float writers and readers): the message must be DIDL 00 01 <opcode> <payload per spec> and the value
    read back must be the value written -- floats compared by bit pattern, including NaNs with sign, payload and
    signalling bit."""
    import struct
    t0 = time.time()
    exe, err = build_replay()
    if not exe:
        return {"undecided": [f"bounded stand-in: the real crate does not build: {err}"], "failures": []}
    scale = int(os.environ.get("VERIF_STANDIN_SCALE", "1"))
    rnd = random.Random(3000 + int(os.environ.get("VERIF_SEED", "0") or 0))
    cases = []   # (cmd, expected message hex, expected value text)
    f32s = [0x00000000, 0x80000000, 0x3f800000, 0x7f800000, 0xff800000, 0x7fc00000, 0xffc00000, 0x7fa00000, 0x7f800001, 0xffffffff,
            0x00000001, 0x7f7fffff] + [rnd.getrandbits(32) for _ in range(40 * scale)]
    f64s = [0, 1 << 63, 0x3ff0000000000000, 0x7ff0000000000000, 0xfff0000000000000, 0x7ff8000000000000, 0xfff8000000000000,
            0x7ff4000000000000, 0x7ff0000000000001, 0xffffffffffffffff, 1, 0x7fefffffffffffff] + [rnd.getrandbits(64) for _ in range(40 * scale)]
    hdr = "4449444c0001"
    for b in f32s:
        cases.append((f"rt f32 {b:08x}", hdr + sleb_ref(-13).hex() + struct.pack("<I", b).hex(), f"{b:08x}"))
    for b in f64s:
        cases.append((f"rt f64 {b:016x}", hdr + sleb_ref(-14).hex() + struct.pack("<Q", b).hex(), f"{b:016x}"))
        cases.append((f"rt optf64 {b:016x}", "4449444c016e72010001" + struct.pack("<Q", b).hex(), f"{b:016x}"))
    nats = set()
    for k in range(0, 200 * (3 if scale > 1 else 1) + 1):
        for d in (-1, 0, 1):
            if (1 << k) + d >= 0:
                nats.add((1 << k) + d)
    for e in range(0, 61):
        nats.add(10 ** e)
    for _ in range(100 * scale):
        nats.add(rnd.getrandbits(rnd.randrange(1, 260)))
    for n in sorted(nats):
        cases.append((f"rt nat {n}", hdr + sleb_ref(-3).hex() + leb_ref(n).hex(), str(n)))
        cases.append((f"rt int {n}", hdr + sleb_ref(-4).hex() + sleb_ref(n).hex(), str(n)))
        cases.append((f"rt int {-n}", hdr + sleb_ref(-4).hex() + sleb_ref(-n).hex(), str(-n)))
        if n < 2 ** 128:
            cases.append((f"rt u128 {n}", hdr + sleb_ref(-3).hex() + leb_ref(n).hex(), str(n)))
        if n < 2 ** 127:
            cases.append((f"rt i128 {-n}", hdr + sleb_ref(-4).hex() + sleb_ref(-n).hex(), str(-n)))
    for n in sorted(nats)[::7]:
        cases.append((f"rt vecnat {n}", "4449444c016d7d010002" + leb_ref(n).hex() + "07", f"{n},7"))
    p = subprocess.run([exe], input="\n".join(c[0] for c in cases) + "\n", capture_output=True, text=True, timeout=900)
    outs = [l.strip() for l in p.stdout.splitlines()]
    if len(outs) != len(cases):
        return {"undecided": [f"bounded stand-in: replay produced {len(outs)} lines for {len(cases)} values"], "failures": []}
    failures = []
    for (cmd, emsg, eval_), o in zip(cases, outs):
        parts = o.split(" ")
        why = None
        if parts[0] != "ok" or len(parts) != 3:
            why = ("round trip fails", o[:200])
        elif parts[1] != emsg:
            why = ("the message is DIDL 00 01 <opcode> <payload per spec>: " + emsg, parts[1])
        elif parts[2] != eval_:
            why = ("the value read back is the value written: " + eval_, parts[2])
        if why:
            failures.append({
                "obligation": "bounded-standin::native scalar round trip (message per spec, value read back bit for bit)", "unit": "bounded-standin",
                "item": "Encode! / Decode! of a scalar", "fn": "roundtrip", "kind": "bounded-standin", "file": "rust/candid/src/types/number.rs",
                "line": 0, "source_text": "", "clause": None, "verifier_message": f"`{cmd}`: expected {why[0]}, got {why[1]}",
                "witness": {"confirmed": True, "function": "candid::Encode! / candid::Decode!", "input": cmd, "expected": why[0], "got": why[1],
                            "replay_cmd": f"echo '{cmd}' | {exe}"}})
            if len(failures) >= 3:
                break
    return {"failures": failures, "undecided": [], "obligations": 0, "discharged": 0, "trusted": [],
            "cmds": [f"{exe} < scalar round trips (bounded stand-in)"],
            "backends": ["BOUNDED stand-in (real Encode!/Decode! of scalars vs the spec's byte layout; not a proof)"], "samples": [],
            "bounded_standins": [{"functions": ["number.rs serde visitors of Nat / Int (visit_byte_buf, visit_u64, visit_i64)", "ser.rs serialize_num! float writers / de.rs float readers",
                                                "de.rs deserialize_nat / deserialize_int / deserialize_i128 / deserialize_u128 hand-over"],
                                  "bound": f"{len(f32s)} f32 and {len(f64s)} f64 bit patterns (all NaN classes, +-0, infinities, subnormals, seeded random), "
                                           f"{len(nats)} naturals (2^k + d, k <= {200 * (3 if scale > 1 else 1)}, powers of ten to 10^60, seeded random < 2^260) as nat / int / -int / u128 / i128 / vec nat",
                                  "vectors": len(cases), "disagreements": len(failures), "labelled": "bounded, NOT proved",
                                  "wall_s": round(time.time() - t0, 1)}]}
