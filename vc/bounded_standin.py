"""Bounded stand-ins (LABELLED BOUNDED, never counted as proved): functions that could not be brought within
Verus' reach are run, on the real crate built from the current tree, over a stated finite set of inputs and
compared with the specification computed here with Python big integers.

  number.rs Nat::encode / Int::encode : all n = 2^k + d and -(2^k) + d, k <= 200, d in {-2..2}, plus 400 pseudo-random
                                        values up to 2^200 (seeded)  -> output must be exactly leb(n) / sleb(n)
"""
import os
import random
import subprocess
import sys
import time

HERE = os.path.dirname(os.path.abspath(__file__))
ROOT = os.path.dirname(HERE)
sys.path.insert(0, HERE)
import weave  # noqa: E402
from witness import leb_ref, sleb_ref, TOOLCHAIN  # noqa: E402


def build_replay():
    src = os.path.join(ROOT, "replay")
    work = os.path.join(ROOT, "out", "replay_crate")
    os.makedirs(os.path.join(work, "src"), exist_ok=True)
    toml = open(os.path.join(src, "Cargo.toml")).read().replace("/repo/rust/", os.path.join(weave.REPO, "rust/"))
    open(os.path.join(work, "Cargo.toml"), "w").write(toml)
    for f in ("src/main.rs",):
        open(os.path.join(work, f), "w").write(open(os.path.join(src, f)).read())
    lock = os.path.join(weave.REPO, "Cargo.lock")
    if os.path.exists(lock):
        open(os.path.join(work, "Cargo.lock"), "w").write(open(lock).read())
    env = dict(os.environ, RUSTUP_TOOLCHAIN=TOOLCHAIN, CARGO_TARGET_DIR=os.path.join(ROOT, "out", "replay_target"),
               CARGO_NET_OFFLINE="true")
    p = subprocess.run(["cargo", "build", "--offline", "--quiet"], cwd=work, env=env, capture_output=True, text=True)
    if p.returncode:
        return None, p.stderr[-1500:]
    return os.path.join(ROOT, "out", "replay_target", "debug", "candid_replay"), None


def bignum_encoders(pid):
    t0 = time.time()
    exe, err = build_replay()
    if not exe:
        return {"undecided": [f"bounded stand-in: the real crate does not build: {err}"], "failures": []}
    rnd = random.Random(int(os.environ.get("VERIF_SEED", "0") or 0))
    nats, ints = set(), set()
    for k in range(0, 201):
        for d in (-2, -1, 0, 1, 2):
            v = (1 << k) + d
            if v >= 0:
                nats.add(v)
            ints.add(v)
            ints.add(-(1 << k) + d)
    for _ in range(400):
        v = rnd.getrandbits(rnd.randrange(1, 201))
        nats.add(v)
        ints.add(v if rnd.random() < 0.5 else -v)
    cmds = [f"en {v}" for v in sorted(nats)] + [f"ei {v}" for v in sorted(ints)]
    exps = ["ok " + leb_ref(v).hex() for v in sorted(nats)] + ["ok " + sleb_ref(v).hex() for v in sorted(ints)]
    p = subprocess.run([exe], input="\n".join(cmds) + "\n", capture_output=True, text=True, timeout=300)
    outs = p.stdout.splitlines()
    failures = []
    for c, e, o in zip(cmds, exps, outs):
        if o.strip() != e:
            fn = "Nat::encode" if c.startswith("en") else "Int::encode"
            failures.append({
                "obligation": f"bounded-standin::{fn}::output == {'leb' if c.startswith('en') else 'sleb'}(value)", "unit": "bounded-standin",
                "item": fn, "fn": "encode", "kind": "bounded-standin", "file": "rust/candid/src/types/number.rs", "line": 0,
                "source_text": "", "clause": None,
                "verifier_message": f"{fn}({c[3:]}) on the real crate wrote {o.strip()} but the minimal encoding is {e}",
                "witness": {"confirmed": True, "function": f"rust/candid/src/types/number.rs::{fn}", "input": c, "expected": e,
                            "got": o.strip(), "replay_cmd": f"echo '{c}' | {exe}   # expected: {e}"}})
            if len(failures) >= 3:
                break
    return {
        "failures": failures, "undecided": [],
        "obligations": 0, "discharged": 0,
        "trusted": [], "cmds": [f"{exe} < vectors (bounded stand-in)"],
        "backends": ["BOUNDED stand-in (concrete enumeration on the real crate; not a proof)"],
        "samples": [],
        "bounded_standins": [{"functions": ["number.rs Nat::encode", "number.rs Int::encode"],
                              "bound": "n = +-2^k + d, k <= 200, d in -2..2, plus 400 seeded pseudo-random values < 2^200",
                              "vectors": len(cmds), "disagreements": len(failures), "labelled": "bounded, NOT proved",
                              "wall_s": round(time.time() - t0, 1)}],
    }


# ------------------------------------------------------------------ principal text form (IC interface spec)
def canon_text(b):
    import base64
    import zlib
    raw = zlib.crc32(b).to_bytes(4, "big") + b
    t = base64.b32encode(raw).decode().rstrip("=").lower()
    return "-".join(t[i:i + 5] for i in range(0, len(t), 5))


def principal_text(pid):
    """BOUNDED stand-in for ic_principal from_text / Display (data_encoding + crc32fast + str slicing are
    outside Verus' reach): every byte string of length <= 1 and a seeded sample of lengths 2..29 is printed and
    parsed back; every canonical text is also mutated (trailing / leading / moved / doubled dash, upper case,
    one flipped character, truncation) and the verdict compared with the specification."""
    t0 = time.time()
    exe, err = build_replay()
    if not exe:
        return {"undecided": [f"bounded stand-in: the real crate does not build: {err}"], "failures": []}
    rnd = random.Random(int(os.environ.get("VERIF_SEED", "0") or 0))
    blobs = [b""] + [bytes([i]) for i in range(256)]
    blobs += [bytes([a, b]) for a in range(0, 256, 5) for b in range(0, 256, 7)]
    for n in range(2, 30):
        for _ in range(12):
            blobs.append(bytes(rnd.getrandbits(8) for _ in range(n)))
    cmds, exps = [], []
    for b in blobs:
        t = canon_text(b)
        cmds.append("pt " + b.hex()); exps.append("ok " + t)
        cmds.append("pf " + t); exps.append("ok " + b.hex())
        cmds.append("pf " + t.upper()); exps.append("ok " + b.hex())
    for b in blobs[::9]:
        t = canon_text(b)
        muts = [t + "-", "-" + t, t.replace("-", "", 1) if "-" in t else t + "a", t.replace("-", "--", 1) if "-" in t else t + "--",
                t[:-1], t + "a"]
        if len(t) > 6:
            muts.append(t[:2] + "-" + t[2:])            # extra dash at a wrong place
            k = rnd.randrange(len(t))
            if t[k] != "-":
                muts.append(t[:k] + ("b" if t[k] != "b" else "c") + t[k + 1:])  # one character changed
        for m in muts:
            if m == t or " " in m or not m:
                continue
            cmds.append("pf " + m); exps.append("err")
    for n in (30, 31, 40, 256, 260, 285):
        cmds.append("ps " + ("00" * n)); exps.append("err")
    for n in (0, 1, 29):
        cmds.append("ps " + ("07" * n)); exps.append("ok " + "07" * n)
    p = subprocess.run([exe], input="\n".join(cmds) + "\n", capture_output=True, text=True, timeout=600)
    outs = p.stdout.splitlines()
    failures = []
    for c, e, o in zip(cmds, exps, outs):
        o = o.strip()
        e = e.strip()
        bad = (not o.startswith("err")) if e == "err" else (o != e)
        if bad:
            fn = {"pt": "Display / to_text", "pf": "from_text", "ps": "try_from_slice"}[c[:2]]
            failures.append({
                "obligation": f"bounded-standin::Principal::{fn}", "unit": "bounded-standin", "item": fn, "fn": fn,
                "kind": "bounded-standin", "file": "rust/ic_principal/src/lib.rs", "line": 0, "source_text": "", "clause": None,
                "verifier_message": f"{fn}: input `{c[3:]}` gave `{o}`, the specification says `{e}`",
                "witness": {"confirmed": True, "function": f"rust/ic_principal/src/lib.rs::{fn}", "input": c, "expected": e, "got": o,
                            "replay_cmd": f"echo '{c}' | {exe}   # expected: {e}"}})
            if len(failures) >= 3:
                break
    return {"failures": failures, "undecided": [], "obligations": 0, "discharged": 0, "trusted": [],
            "cmds": [f"{exe} < vectors (bounded stand-in)"],
            "backends": ["BOUNDED stand-in (concrete enumeration on the real crate; not a proof)"], "samples": [],
            "bounded_standins": [{"functions": ["ic_principal Display/to_text", "ic_principal from_text", "try_from_slice (lengths 30..285)"],
                                  "bound": "all ids of length <= 1, a grid of length-2 ids, 12 seeded random ids per length 2..29; "
                                           "upper-case spelling of each; 6-8 single edits of every 9th canonical text",
                                  "vectors": len(cmds), "disagreements": len(failures), "labelled": "bounded, NOT proved",
                                  "wall_s": round(time.time() - t0, 1)}]}
