"""Bounded stand-ins (LABELLED BOUNDED, never counted as proved): functions that could not be brought within
Verus' reach are run, on the real crate built from the current tree, over a stated finite set of inputs and
compared with the specification computed here with Python big integers.

  number.rs Nat::encode / Int::encode : all n = 2^k + d and -(2^k) + d, k <= 200, d in {-2..2}, plus 400 pseudo-random
                                        values up to 2^200 (seeded)  -> output must be exactly leb(n) / sleb(n)
"""
import os
import random
import subprocess
import sys
import time

HERE = os.path.dirname(os.path.abspath(__file__))
ROOT = os.path.dirname(HERE)
sys.path.insert(0, HERE)
import weave  # noqa: E402
from witness import leb_ref, sleb_ref, TOOLCHAIN  # noqa: E402


def build_replay():
    src = os.path.join(ROOT, "replay")
    work = os.path.join(ROOT, "out", "replay_crate")
    os.makedirs(os.path.join(work, "src"), exist_ok=True)
    toml = open(os.path.join(src, "Cargo.toml")).read().replace("/repo/rust/candid", os.path.join(weave.REPO, "rust/candid"))
    open(os.path.join(work, "Cargo.toml"), "w").write(toml)
    for f in ("src/main.rs",):
        open(os.path.join(work, f), "w").write(open(os.path.join(src, f)).read())
    lock = os.path.join(weave.REPO, "Cargo.lock")
    if os.path.exists(lock):
        open(os.path.join(work, "Cargo.lock"), "w").write(open(lock).read())
    env = dict(os.environ, RUSTUP_TOOLCHAIN=TOOLCHAIN, CARGO_TARGET_DIR=os.path.join(ROOT, "out", "replay_target"),
               CARGO_NET_OFFLINE="true")
    p = subprocess.run(["cargo", "build", "--offline", "--quiet"], cwd=work, env=env, capture_output=True, text=True)
    if p.returncode:
        return None, p.stderr[-1500:]
    return os.path.join(ROOT, "out", "replay_target", "debug", "candid_replay"), None


def bignum_encoders(pid):
    t0 = time.time()
    exe, err = build_replay()
    if not exe:
        return {"undecided": [f"bounded stand-in: the real crate does not build: {err}"], "failures": []}
    rnd = random.Random(int(os.environ.get("VERIF_SEED", "0") or 0))
    nats, ints = set(), set()
    for k in range(0, 201):
        for d in (-2, -1, 0, 1, 2):
            v = (1 << k) + d
            if v >= 0:
                nats.add(v)
            ints.add(v)
            ints.add(-(1 << k) + d)
    for _ in range(400):
        v = rnd.getrandbits(rnd.randrange(1, 201))
        nats.add(v)
        ints.add(v if rnd.random() < 0.5 else -v)
    cmds = [f"en {v}" for v in sorted(nats)] + [f"ei {v}" for v in sorted(ints)]
    exps = ["ok " + leb_ref(v).hex() for v in sorted(nats)] + ["ok " + sleb_ref(v).hex() for v in sorted(ints)]
    p = subprocess.run([exe], input="\n".join(cmds) + "\n", capture_output=True, text=True, timeout=300)
    outs = p.stdout.splitlines()
    failures = []
    for c, e, o in zip(cmds, exps, outs):
        if o.strip() != e:
            fn = "Nat::encode" if c.startswith("en") else "Int::encode"
            failures.append({
                "obligation": f"bounded-standin::{fn}::output == {'leb' if c.startswith('en') else 'sleb'}(value)", "unit": "bounded-standin",
                "item": fn, "fn": "encode", "kind": "bounded-standin", "file": "rust/candid/src/types/number.rs", "line": 0,
                "source_text": "", "clause": None,
                "verifier_message": f"{fn}({c[3:]}) on the real crate wrote {o.strip()} but the minimal encoding is {e}",
                "witness": {"confirmed": True, "function": f"rust/candid/src/types/number.rs::{fn}", "input": c, "expected": e,
                            "got": o.strip(), "replay_cmd": f"echo '{c}' | {exe}   # expected: {e}"}})
            if len(failures) >= 3:
                break
    return {
        "failures": failures, "undecided": [],
        "obligations": 0, "discharged": 0,
        "trusted": [], "cmds": [f"{exe} < vectors (bounded stand-in)"],
        "backends": ["BOUNDED stand-in (concrete enumeration on the real crate; not a proof)"],
        "samples": [],
        "bounded_standins": [{"functions": ["number.rs Nat::encode", "number.rs Int::encode"],
                              "bound": "n = +-2^k + d, k <= 200, d in -2..2, plus 400 seeded pseudo-random values < 2^200",
                              "vectors": len(cmds), "disagreements": len(failures), "labelled": "bounded, NOT proved",
                              "wall_s": round(time.time() - t0, 1)}],
    }
