"""Checks that are not Verus runs: the mechanical frame scan of the quota fields
(syntactic, labelled so) and the Kani twins (thorough tier, labelled bounded /
complete per harness)."""
import glob
import os
import re
import subprocess
import sys
import time

HERE = os.path.dirname(os.path.abspath(__file__))
ROOT = os.path.dirname(HERE)
sys.path.insert(0, HERE)
import weave  # noqa: E402
from rusttok import tokenize, match_close  # noqa: E402


def fn_ranges(toks):
    """[(name, first_tok, last_tok)] for every fn with a body (innermost wins on lookup)."""
    out = []
    for i, t in enumerate(toks):
        if t.kind == "id" and t.text == "fn" and i + 1 < len(toks) and toks[i + 1].kind == "id":
            depth, j = 0, i + 2
            while j < len(toks):
                tx = toks[j].text
                if toks[j].kind == "punct":
                    if tx in "([":
                        depth += 1
                    elif tx in ")]":
                        depth -= 1
                    elif tx == "{" and depth == 0:
                        out.append((toks[i + 1].text, i, match_close(toks, j)))
                        break
                    elif tx == ";" and depth == 0:
                        break
                j += 1
    return out


def item_range(toks, kw, name):
    for i, t in enumerate(toks):
        if t.kind == "id" and t.text == kw and toks[i + 1].text == name:
            j = i
            while toks[j].text != "{":
                j += 1
            return (i, match_close(toks, j))
    return None


def _enclosing_open(toks, i):
    depth = 0
    for k in range(i - 1, -1, -1):
        tx = toks[k].text
        if toks[k].kind != "punct":
            continue
        if tx in (")", "]", "}"):
            depth += 1
        elif tx in ("(", "[", "{"):
            if depth == 0:
                return tx
            depth -= 1
    return None


def enclosing_fn(ranges, idx):
    best = None
    for name, a, b in ranges:
        if a <= idx <= b and (best is None or a >= best[1]):
            best = (name, a, b)
    return best[0] if best else None


QUOTA_ALLOWED = {"add_cost", "compute_cost", "set_decoding_quota", "set_skipping_quota", "new"}
CONFIG_INIT_ALLOWED = {"from_bytes", "recoverable_visit_some"}


def quota_frame_scan(pid):
    """The two quota counters may be read or written only by the metering API."""
    t0 = time.time()
    failures, samples = [], []
    nfiles = nocc = 0
    src_root = os.path.join(weave.REPO, "rust/candid/src")
    for path in sorted(glob.glob(os.path.join(src_root, "**/*.rs"), recursive=True)):
        rel = os.path.relpath(path, weave.REPO)
        src = open(path, encoding="utf-8").read()
        toks = tokenize(src)
        ranges = fn_ranges(toks)
        cfg = item_range(toks, "struct", "DecoderConfig")
        nfiles += 1
        for i, t in enumerate(toks):
            if t.kind != "id":
                continue
            line = src.count("\n", 0, t.start) + 1
            linetext = src.split("\n")[line - 1].strip()
            if t.text in ("decoding_quota", "skipping_quota"):
                nocc += 1
                fn = enclosing_fn(ranges, i)
                in_struct = cfg and cfg[0] <= i <= cfg[1]
                ok = in_struct or fn in QUOTA_ALLOWED
                samples.append(f"{rel}:{line} `{t.text}` in {fn or 'struct DecoderConfig'}: {'allowed' if ok else 'NOT ALLOWED'}")
                if not ok:
                    failures.append(mk_fail(pid, "quota-frame", f"quota field `{t.text}` touched outside the metering API",
                                            rel, line, linetext, fn))
            elif t.text == "config" and rel.endswith("de.rs"):
                nxt = toks[i + 1].text if i + 1 < len(toks) else ""
                prev = toks[i - 1].text if i else ""
                fn = enclosing_fn(ranges, i)
                if nxt == ":" and prev in ("{", ",") and _enclosing_open(toks, i) == "{":
                    # struct-literal initialisation of Deserializer.config
                    in_struct_def = item_range(toks, "struct", "Deserializer")
                    if in_struct_def and in_struct_def[0] <= i <= in_struct_def[1]:
                        continue
                    nocc += 1
                    ok = fn in CONFIG_INIT_ALLOWED
                    samples.append(f"{rel}:{line} `config:` initialiser in {fn}: {'allowed' if ok else 'NOT ALLOWED'}")
                    if not ok:
                        failures.append(mk_fail(pid, "quota-frame", "Deserializer.config re-initialised outside from_bytes/recoverable_visit_some",
                                                rel, line, linetext, fn))
                elif prev == "." and nxt == "=" and toks[i + 2].text != "=":
                    nocc += 1
                    failures.append(mk_fail(pid, "quota-frame", "Deserializer.config overwritten", rel, line, linetext, fn))
    # back-tracking keeps the spent budget: the restore in recoverable_visit_some must take config from self
    de = os.path.join(src_root, "de.rs")
    src = open(de, encoding="utf-8").read()
    toks = tokenize(src)
    ranges = fn_ranges(toks)
    texts = [t.text for t in toks]
    want = ["config", ":", "self", ".", "config", ".", "clone", "(", ")"]
    found = False
    for name, a, b in ranges:
        if name == "recoverable_visit_some":
            for k in range(a, b):
                if texts[k:k + len(want)] == want:
                    found = True
    nocc += 1
    samples.append(f"rust/candid/src/de.rs recoverable_visit_some restores `config: self.config.clone()`: {'yes' if found else 'NO'}")
    if not found:
        failures.append(mk_fail(pid, "quota-frame", "back-tracking no longer keeps the spent budget "
                                "(`config: self.config.clone()` missing in recoverable_visit_some)",
                                "rust/candid/src/de.rs", 0, "", "recoverable_visit_some"))
    return {
        "failures": failures, "undecided": [],
        "obligations": nocc, "discharged": nocc - len(failures),
        "trusted": ["frame scan is SYNTACTIC (token scan of rust/candid/src), not deductive: it shows that no code outside "
                    "add_cost/compute_cost/the setters/DecoderConfig::new names the quota fields"],
        "cmds": ["python3 vc/extra_checks.py quota_frame_scan"],
        "backends": ["token scan (syntactic frame condition)"],
        "samples": [{"frame_scan": s} for s in samples[:8]],
        "wall": time.time() - t0,
    }


def mk_fail(pid, kind, what, rel, line, text, fn):
    return {"obligation": f"frame::{fn}::{kind}@`{text[:80]}`", "unit": "frame-scan", "item": fn or "?", "fn": fn or "?",
            "kind": kind, "file": rel, "line": line, "source_text": text, "clause": what,
            "verifier_message": f"{what}\n  --> {rel}:{line}\n   | {text}\n"}


def run(pid, spec, tier):
    out = []
    # the thorough tier widens the bounds of the labelled stand-ins (they stay bounded and are reported with their bound)
    os.environ["VERIF_STANDIN_SCALE"] = "10" if tier == "thorough" else "1"
    for name in spec.get("extra", []):
        if name == "quota_frame_scan":
            out.append(quota_frame_scan(pid))
        elif name == "bounded_encoder_corpus":
            import bounded_standin
            out.append(bounded_standin.encoder_corpus(pid))
        elif name == "bounded_quota_corpus":
            import bounded_standin
            out.append(bounded_standin.quota_corpus(pid))
        elif name == "bounded_subtype_memo":
            import bounded_standin
            import subtype_standin
            out.append(subtype_standin.run(pid, bounded_standin.build_replay))
        elif name == "bounded_reference_decode":
            import bounded_standin
            import refdecode_standin
            out.append(refdecode_standin.run(pid, bounded_standin.build_replay))
        elif name == "bounded_scalar_roundtrip":
            import bounded_standin
            out.append(bounded_standin.scalar_roundtrip(pid))
        elif name == "bounded_coercion_corpus":
            import bounded_standin
            import coercion_standin
            out.append(coercion_standin.run(pid, bounded_standin.build_replay))
        elif name == "bounded_typing_corpus":
            import bounded_standin
            import typing_standin
            out.append(typing_standin.run(pid, bounded_standin.build_replay))
        elif name == "bounded_native_quota":
            import bounded_standin
            import native_standin
            out.append(native_standin.run_quota(pid, bounded_standin.build_replay))
        elif name == "bounded_native_corpus":
            import bounded_standin
            import native_standin
            out.append(native_standin.run(pid, bounded_standin.build_replay))
        elif name == "bounded_history_corpus":
            import bounded_standin
            out.append(bounded_standin.history_corpus(pid))
        elif name == "bounded_derive_order":
            import bounded_standin
            out.append(bounded_standin.derive_order(pid))
        elif name == "bounded_principal_text":
            import bounded_standin
            out.append(bounded_standin.principal_text(pid))
        elif name == "bounded_bignum_encoders":
            import bounded_standin
            out.append(bounded_standin.bignum_encoders(pid))
    if tier == "thorough":
        for name in spec.get("extra_thorough", []):
            if name.startswith("kani:"):
                import kani_twins
                out.append(kani_twins.run(pid, name[5:]))
    return out


if __name__ == "__main__":
    import json
    print(json.dumps(quota_frame_scan("C07"), indent=1)[:4000])
