//! Runs the REAL candid crate (path dependency on /repo, or $VERIF_REPO via a generated Cargo.toml) on
//! vectors given on stdin and prints what it observed; expectations are computed by the Python driver.
//!   en <dec>        Nat::encode           -> hex
//!   ei <dec>        Int::encode           -> hex
//!   rd <hexmsg> <defs> <type>   decode the message at ONE expected type under the given definitions -> ok | err
//!   rt <kind> <value>  native Encode!/Decode! round trip of one scalar -> "ok <message hex> <value read back>"
//!   rds <hexmsg> <defs> <type>  as rd, with short error messages (the wasm32 default): -> ok | err   (a panic prints `panic`)
//!   deep <depth> <stack KiB>   a function reference whose result type is a <depth>-deep opt chain, decoded at an equally deep
//!                            expected type on a thread with that stack -> ok | err | panic
//!   co <hexmsg> <t1,t2,..>   decode the message at the expected types, re-encode the result at them -> "ok <hex>" | "err"
//!   st <scenario>   subtype memo scenario (see subtype_case) -> per query "<shared><fresh>"
//!   dn <hex>        Nat::decode           -> "ok <dec> <consumed>" | "err"
//!   di <hex>        Int::decode           -> "ok <dec> <consumed>" | "err"
use candid::{Int, Nat};
use num_bigint::{BigInt, BigUint};
use std::io::{BufRead, Cursor};

fn hexd(hex: &str) -> Vec<u8> {
    (0..hex.len() / 2).map(|i| u8::from_str_radix(&hex[2 * i..2 * i + 2], 16).unwrap()).collect()
}
fn hexe(b: &[u8]) -> String {
    b.iter().map(|x| format!("{:02x}", x)).collect()
}

fn main() {
    let stdin = std::io::stdin();
    for line in stdin.lock().lines() {
        let line = line.unwrap();
        let mut parts: Vec<String> = line.trim().split(' ').map(|s| s.to_string()).collect();
        if parts.len() < 2 {
            parts.push(String::new());
        }
        let p = parts.clone();
        let r = std::panic::catch_unwind(move || match p[0].as_str() {
            "en" => {
                let v: BigUint = p[1].parse().unwrap();
                let mut o = Vec::new();
                Nat(v).encode(&mut o).unwrap();
                format!("ok {}", hexe(&o))
            }
            "ei" => {
                let v: BigInt = p[1].parse().unwrap();
                let mut o = Vec::new();
                Int(v).encode(&mut o).unwrap();
                format!("ok {}", hexe(&o))
            }
            // 128-bit host-integer codecs (types/leb128.rs)
            "e128n" => {
                let v: u128 = p[1].parse().unwrap();
                let mut o = Vec::new();
                candid::types::leb128::encode_nat(&mut o, v).unwrap();
                format!("ok {}", hexe(&o))
            }
            "e128i" => {
                let v: i128 = p[1].parse().unwrap();
                let mut o = Vec::new();
                candid::types::leb128::encode_int(&mut o, v).unwrap();
                format!("ok {}", hexe(&o))
            }
            "dn" => {
                let b = hexd(&p[1]);
                let mut c = Cursor::new(&b[..]);
                match Nat::decode(&mut c) {
                    Ok(v) => format!("ok {} {}", v.0, c.position()),
                    Err(_) => "err".to_string(),
                }
            }
            "di" => {
                let b = hexd(&p[1]);
                let mut c = Cursor::new(&b[..]);
                match Int::decode(&mut c) {
                    Ok(v) => format!("ok {} {}", v.0, c.position()),
                    Err(_) => "err".to_string(),
                }
            }
            // principal: "pt <hex>" bytes -> text ; "pf <text>" text -> bytes | error kind ; "ps <hex>" try_from_slice
            "pt" => {
                let b = hexd(&p[1]);
                match ic_principal::Principal::try_from_slice(&b) {
                    Ok(pr) => format!("ok {}", pr.to_text()),
                    Err(_) => "err".to_string(),
                }
            }
            "pf" => match ic_principal::Principal::from_text(&p[1]) {
                Ok(pr) => format!("ok {}", hexe(pr.as_slice())),
                Err(e) => format!("err {}", match e {
                    ic_principal::PrincipalError::BytesTooLong() => "BytesTooLong",
                    ic_principal::PrincipalError::InvalidBase32() => "InvalidBase32",
                    ic_principal::PrincipalError::TextTooShort() => "TextTooShort",
                    ic_principal::PrincipalError::TextTooLong() => "TextTooLong",
                    ic_principal::PrincipalError::CheckSequenceNotMatch() => "CheckSequenceNotMatch",
                    ic_principal::PrincipalError::AbnormalGrouped(_) => "AbnormalGrouped",
                }),
            },
            "ps" => {
                let b = hexd(&p[1]);
                match ic_principal::Principal::try_from_slice(&b) {
                    Ok(pr) => format!("ok {}", hexe(pr.as_slice())),
                    Err(_) => "err".to_string(),
                }
            }
            // encoder corpus: "tt <kind> <n>" -> hex of a whole message (typed untyped-API path), "tn <kind> <n>" native path
            "tt" => {
                use candid::types::value::{IDLArgs, IDLField, IDLValue, VariantValue};
                use candid::types::{Field, Label, Type, TypeEnv, TypeInner};
                let n: usize = p[2].parse().unwrap();
                let (ty, val): (Type, IDLValue) = match p[1].as_str() {
                    "optchain" => {
                        let mut t: Type = TypeInner::Nat8.into();
                        for _ in 0..n { t = TypeInner::Opt(t).into(); }
                        (t, IDLValue::None)
                    }
                    "vecchain" => {
                        let mut t: Type = TypeInner::Nat16.into();
                        for _ in 0..n { t = TypeInner::Vec(t).into(); }
                        (t, IDLValue::Vec(vec![]))
                    }
                    "text" => (TypeInner::Text.into(), IDLValue::Text("a".repeat(n))),
                    "blob" => (TypeInner::Vec(TypeInner::Nat8.into()).into(), IDLValue::Blob(vec![7u8; n])),
                    "vecnat16" => (TypeInner::Vec(TypeInner::Nat16.into()).into(),
                        IDLValue::Vec((0..n).map(|i| IDLValue::Nat16(i as u16)).collect())),
                    "rec" => {
                        let fs: Vec<Field> = (0..n).map(|i| Field { id: Label::Id(3 * i as u32).into(), ty: TypeInner::Nat8.into() }).collect();
                        let vs: Vec<IDLField> = (0..n).map(|i| IDLField { id: Label::Id(3 * i as u32), val: IDLValue::Nat8(i as u8) }).collect();
                        (TypeInner::Record(fs).into(), IDLValue::Record(vs))
                    }
                    "var" => {
                        let fs: Vec<Field> = (0..n).map(|i| Field { id: Label::Id(2 * i as u32).into(), ty: TypeInner::Null.into() }).collect();
                        let f = IDLField { id: Label::Id(2 * (n as u32 - 1)), val: IDLValue::Null };
                        (TypeInner::Variant(fs).into(), IDLValue::Variant(VariantValue(Box::new(f), (n - 1) as u64)))
                    }
                    _ => return "bad".to_string(),
                };
                match IDLArgs::new(&[val]).to_bytes_with_types(&TypeEnv::new(), &[ty]) {
                    Ok(b) => format!("ok {}", hexe(&b)),
                    Err(e) => format!("err {}", e),
                }
            }
            // untyped values encoded WITHOUT types (IDLArgs::to_bytes / IDLBuilder::value_arg): number literals are ints
            "tu" => {
                use candid::types::value::{IDLArgs, IDLField, IDLValue};
                use candid::types::Label;
                let num = IDLValue::Number(p[2].clone());
                let val = match p[1].as_str() {
                    "number" => num,
                    "numrec" => IDLValue::Record(vec![IDLField { id: Label::Id(1), val: num }]),
                    "numvec" => IDLValue::Vec(vec![num.clone(), num]),
                    "numopt" => IDLValue::Opt(Box::new(num)),
                    _ => return "bad".to_string(),
                };
                match IDLArgs::new(&[val]).to_bytes() {
                    Ok(b) => format!("ok {}", hexe(&b)),
                    Err(e) => format!("err {}", e),
                }
            }
            // native values of std / library types whose CandidType impls are hand-written in impls.rs
            "te" => {
                use std::collections::{BTreeMap, BTreeSet, BinaryHeap, HashMap, HashSet, LinkedList, VecDeque};
                use std::time::{Duration, UNIX_EPOCH};
                let k: usize = p[1].parse().unwrap();
                let r = match k {
                    0 => candid::encode_one((1u8, "a".to_string(), true)),
                    1 => candid::encode_one(5usize),
                    2 => candid::encode_one(-5isize),
                    3 => candid::encode_one(Duration::new(5, 7)),
                    4 => candid::encode_one(UNIX_EPOCH + Duration::new(5, 7)),
                    5 => candid::encode_one(BTreeMap::from([("a".to_string(), 1u8), ("b".to_string(), 2u8)])),
                    6 => candid::encode_one(BTreeSet::from([-1i8, 3i8])),
                    7 => candid::encode_one([1u16, 2, 3]),
                    8 => candid::encode_one(Some(None::<Option<u8>>)),
                    9 => candid::encode_one(Ok::<u8, String>(7)),
                    10 => candid::encode_one((Box::new("x".to_string()), std::rc::Rc::new(3u8), std::sync::Arc::new("y".to_string()), std::borrow::Cow::Borrowed("z"))),
                    11 => candid::encode_one((std::cell::RefCell::new(5u8), std::cell::Cell::new(6u16), std::cmp::Reverse(7u32))),
                    12 => candid::encode_one(std::marker::PhantomData::<u8>),
                    13 => candid::encode_one(()),
                    14 => candid::encode_one((1.5f32, -2.0f64)),
                    15 => candid::encode_one(std::path::PathBuf::from("/a/b")),
                    16 => candid::encode_one((VecDeque::from([1u8, 2]), LinkedList::from([3u8]), BinaryHeap::from([4u8]), HashSet::<u8>::from([5u8]), HashMap::<u8, u8>::from([(6u8, 7u8)]))),
                    17 => candid::encode_one((0u8, 1u8, 2u8, 3u8, 4u8, 5u8, 6u8, 7u8, 8u8, 9u8, 10u8, 11u8, 12u8, 13u8, 14u8, 15u8)),
                    18 => candid::encode_one((i128::MIN, u128::MAX, i128::MAX)),
                    19 => candid::encode_one((Err::<u8, String>("e".to_string()), "s", &5u8, &mut 6u8, Some(Box::new(7u8)))),
                    20 => candid::encode_one(vec![Some(vec![(1u8, None::<u8>)]), None]),
                    21 => candid::encode_one((candid::Reserved, Some(candid::Reserved), candid::Principal::from_slice(&[1, 2]), candid::Nat::from(300u32), candid::Int::from(-300))),
                    _ => return "bad".to_string(),
                };
                match r { Ok(b) => format!("ok {}", hexe(&b)), Err(e) => format!("err {}", e) }
            }
            "tn" => {
                let n: usize = p[2].parse().unwrap();
                let r = match p[1].as_str() {
                    "text" => candid::encode_one("a".repeat(n)),
                    "blob" => candid::encode_one(vec![7u8; n]),
                    "vecnat16" => candid::encode_one((0..n).map(|i| i as u16).collect::<Vec<u16>>()),
                    "vecnat" => candid::encode_one((0..n).map(|i| Nat::from(i as u64)).collect::<Vec<Nat>>()),
                    // pointer-like wrappers share the primitive's Candid type but not its memory layout
                    "vecbox64" => candid::encode_one((0..n).map(|i| Box::new(i as u64)).collect::<Vec<Box<u64>>>()),
                    "vecrc64" => candid::encode_one((0..n).map(|i| std::rc::Rc::new(i as u64)).collect::<Vec<std::rc::Rc<u64>>>()),
                    "vecbox16" => candid::encode_one((0..n).map(|i| Box::new(i as u16)).collect::<Vec<Box<u16>>>()),
                    "vecref64" => { let vals: Vec<i64> = (0..n).map(|i| -(i as i64)).collect(); let refs: Vec<&i64> = vals.iter().collect(); candid::encode_one(refs) }
                    "arr32" => candid::encode_one([5u32, 6, 7]),
                    _ => return "bad".to_string(),
                };
                match r { Ok(b) => format!("ok {}", hexe(&b)), Err(e) => format!("err {}", e) }
            }
            // history corpus: "h <perm>" encodes + decodes values of 5 (mutually) recursive / generic derived types in the
            // given order on ONE fresh thread and prints each message; "dv" prints derived field orders
            "rt" => roundtrip_case(&p[1], &p[2]),
            "st" => subtype_case(&p[1]),
            "deep" => deep_case(p[1].parse().unwrap(), p[2].parse().unwrap()),
            "dval" => deep_value_case(&p[1], p[2].parse().unwrap(), p[3].parse().unwrap()),
            "co" => coerce_case(&p[1], &p[2], if p.len() > 3 { &p[3] } else { "" }),
            // decoding with NO expected types: the values of the message as they are, handed back through the untyped encoder
            // (re-encoded at the message's own types, given as text: the untyped encoder infers a vector's type from its first element)
            "cu" => match candid::IDLArgs::from_bytes(&hexd(&p[1])) {
                Ok(args) => {
                    let mut types = Vec::new();
                    for t in p[2].split(',').filter(|t| !t.is_empty() && *t != "-") { types.push(tyx::P { s: t.as_bytes(), i: 0 }.ty()); }
                    match args.to_bytes_with_types(&candid::TypeEnv::new(), &types) { Ok(b) => format!("ok {}", hexe(&b)), Err(e) => format!("REENCODE-ERR {e}") }
                }
                Err(_) => "err".to_string(),
            },
            "nt" => native_case(p[1].parse().unwrap(), &p[2]),
            "tc" => typecheck_case(&p[1]),
            "nq" => native_quota_case(p[1].parse().unwrap(), &p[2], &p[3], &p[4]),
            "rd" => refdecode_case(&p[1], &p[2], &p[3]),
            "rds" => refdecode_short(&p[1], &p[2], &p[3]),
            "h" => history_case(&p[1]),
            "dv" => derive_orders(),
            // quota corpus: "q <case> <dq|-> <sq|->" decodes message #case at its Rust type under the given quotas
            "q" => quota_case(p[1].parse().unwrap(), &p[2], &p[3]),
            _ => "bad".to_string(),
        });
        match r {
            Ok(s) => println!("{}", s),
            Err(_) => println!("panic"),
        }
    }
}


candid::define_function!(pub EchoFn : (u8) -> (u8) query);

#[derive(candid::CandidType, candid::Deserialize, Debug, PartialEq)]
struct Big { a: u8, b: String, c: Vec<u16>, d: Option<Vec<String>> }
#[derive(candid::CandidType, candid::Deserialize, Debug, PartialEq)]
struct Small { a: u8 }

fn quota_case(case: usize, dq: &str, sq: &str) -> String {
    use candid::utils::decode_args_with_config_debug;
    use candid::{DecoderConfig, Principal};
    let mut cfg = DecoderConfig::new();
    if dq != "-" { cfg.set_decoding_quota(dq.parse().unwrap()); }
    if sq != "-" { cfg.set_skipping_quota(sq.parse().unwrap()); }
    fn show<T: std::fmt::Debug>(r: candid::Result<(T, DecoderConfig)>) -> String {
        match r {
            Ok((v, c)) => format!("ok {:?} | {:?} {:?}", v, c.decoding_quota, c.skipping_quota),
            Err(e) => { let m = format!("{:?}", e).replace('\n', " "); format!("err {}", if m.contains("exceeds the limit") { "QUOTA" } else { &m[..m.len().min(160)] }) }
        }
    }
    let f = EchoFn::new(Principal::from_slice(&[1, 2, 3]), "echo".to_string());
    match case {
        0 => { let b = candid::encode_args((7u32, "surplus ".repeat(10))).unwrap(); show(decode_args_with_config_debug::<(u32,)>(&b, &cfg)) }
        1 => { let b = candid::encode_args((7u8, vec![(); 300], "x".to_string())).unwrap(); show(decode_args_with_config_debug::<(u8,)>(&b, &cfg)) }
        2 => { let b = candid::encode_args((Some("abc".to_string()),)).unwrap(); show(decode_args_with_config_debug::<(Option<u32>,)>(&b, &cfg)) }
        3 => { let b = candid::encode_args((vec![1u64; 50],)).unwrap(); show(decode_args_with_config_debug::<(Vec<u64>,)>(&b, &cfg)) }
        4 => { let v = Big { a: 1, b: "text".into(), c: vec![1u16; 30], d: Some(vec!["x".into(); 5]) };
               let b = candid::encode_args((v,)).unwrap(); show(decode_args_with_config_debug::<(Small,)>(&b, &cfg)) }
        5 => { let b = candid::encode_args((f,)).unwrap(); show(decode_args_with_config_debug::<(EchoFn,)>(&b, &cfg)) }
        6 => { let b = candid::encode_args((Some(f), 5u8)).unwrap(); show(decode_args_with_config_debug::<(Option<EchoFn>, u8)>(&b, &cfg)) }
        7 => { let b = candid::encode_args((vec![Some(candid::Nat::from(5u8)); 20], candid::Int::from(-3))).unwrap();
               show(decode_args_with_config_debug::<(Vec<Option<candid::Int>>,)>(&b, &cfg)) }
        // surplus arguments that occupy no value bytes (hand-built: DIDL, empty table, n arguments of type null / reserved)
        8 => { let mut b = b"DIDL\x00\xc8\x01".to_vec(); b.extend(std::iter::repeat(0x7f).take(200));
               show(decode_args_with_config_debug::<()>(&b, &cfg)) }
        9 => { let mut b = b"DIDL\x00\x15\x7b".to_vec(); b.extend(std::iter::repeat(0x7f).take(10)); b.extend(std::iter::repeat(0x70).take(10)); b.push(7);
               show(decode_args_with_config_debug::<(u8,)>(&b, &cfg)) }
        _ => "bad".to_string(),
    }
}


// ---------------------------------------------------------------- parse + check_prog of a generated program (vc/typing_standin.py)
fn typecheck_case(hextext: &str) -> String {
    let text = String::from_utf8(hexd(hextext)).unwrap();
    let prog = match text.parse::<candid_parser::IDLProg>() { Ok(p) => p, Err(_) => return "err".to_string() };
    let mut env = candid::TypeEnv::new();
    match candid_parser::check_prog(&mut env, &prog) { Ok(_) => "ok".to_string(), Err(_) => "err".to_string() }
}

// ---------------------------------------------------------------- native decoding against the spec's coercion (vc/native_standin.py)
mod nat_ty {
    use candid::{CandidType, Deserialize, Nat};
    #[derive(CandidType, Deserialize, Debug, PartialEq, Clone)]
    pub struct R1 { pub a: u8, pub b: Option<String>, pub c: Vec<bool> }
    #[derive(CandidType, Deserialize, Debug, PartialEq, Clone)]
    pub enum V1 { A, B(i16), C { x: Option<u8> } }
    #[derive(CandidType, Deserialize, Debug, PartialEq, Clone)]
    pub struct List { pub head: i8, pub tail: Option<Box<List>> }
    #[derive(CandidType, Deserialize, Debug, PartialEq, Clone)]
    pub struct T2(pub u8, pub String);
    #[derive(CandidType, Deserialize, Debug, PartialEq, Clone)]
    pub struct R2 { pub inner: R1, pub more: Vec<V1>, pub note: Option<Nat> }
    #[derive(CandidType, Deserialize, Debug, PartialEq, Clone)]
    pub enum V2 { P(i16, u8), Q }
    #[derive(CandidType, Deserialize, Debug, PartialEq, Clone)]
    pub enum V3 { N(Option<V1>), S { list: Vec<u8>, t: (u8, u8) } }
    #[derive(CandidType, Deserialize, Debug, PartialEq, Clone)]
    pub struct R3<'a> { #[serde(borrow)] pub data: Option<&'a [u8]>, pub n: u8 }
    #[derive(CandidType, Deserialize, Debug, PartialEq, Clone)]
    pub struct Millis(pub u64);
    #[derive(CandidType, Deserialize, Debug, PartialEq, Clone)]
    pub struct Flag(pub bool);
    #[derive(CandidType, Deserialize, Debug, PartialEq, Clone)]
    pub struct Wrap2(pub Millis);
    #[derive(CandidType, Deserialize, Debug, PartialEq, Eq, PartialOrd, Ord, Clone)]
    pub struct Key(pub String);
    #[derive(CandidType, Deserialize, Debug, PartialEq, Clone)]
    pub struct WrapNat(pub Nat);
}

fn native_case(k: usize, hexmsg: &str) -> String {
    use candid::{Decode, Encode, Int, Nat, Principal, Reserved};
    use nat_ty::*;
    use std::collections::BTreeMap;
    let b = hexd(hexmsg);
    macro_rules! one { ($t:ty) => { match Decode!(&b, $t) { Ok(v) => format!("ok {}", hexe(&Encode!(&v).unwrap())), Err(_) => "err".to_string() } } }
    macro_rules! two { ($t:ty, $u:ty) => { match Decode!(&b, $t, $u) { Ok((v, w)) => format!("ok {}", hexe(&Encode!(&v, &w).unwrap())), Err(_) => "err".to_string() } } }
    match k {
        0 => one!(Vec<u8>),
        1 => one!(Vec<Option<i32>>),
        2 => one!(Option<Vec<u16>>),
        3 => one!(R1),
        4 => one!(V1),
        5 => one!(BTreeMap<String, u32>),
        6 => one!(BTreeMap<u8, Vec<u8>>),
        7 => two!(Int, Nat),
        8 => one!(Vec<Int>),
        9 => one!(Vec<Nat>),
        10 => two!(u128, i128),
        11 => one!(List),
        12 => one!(T2),
        13 => one!(Result<u8, String>),
        14 => one!(Option<Option<u8>>),
        15 => one!(Vec<Vec<u8>>),
        16 => match Decode!(&b, Principal, Reserved, Option<i64>) { Ok((x, y, z)) => format!("ok {}", hexe(&Encode!(&x, &y, &z).unwrap())), Err(_) => "err".to_string() },
        17 => one!(R2),
        18 => two!(bool, String),
        19 => one!(Vec<(u16, Option<String>)>),
        20 => one!(BTreeMap<u8, Option<u8>>),
        21 => one!(V2),
        22 => two!(Vec<(u16, Option<String>)>, Vec<u8>),
        23 => two!(Vec<u64>, Vec<i16>),
        24 => one!(Option<Box<List>>),
        25 => one!(Vec<()>),
        26 => one!([u8; 4]),
        27 => one!([String; 2]),
        28 => two!([u8; 2], Vec<u8>),
        29 => two!([i32; 3], Option<[bool; 1]>),
        30 => one!(std::collections::BTreeSet<i64>),
        31 => one!(std::collections::VecDeque<Option<bool>>),
        32 => one!(Box<Option<u8>>),
        33 => one!(V3),
        34 => one!(Result<u8, candid::Empty>),
        35 => one!(Option<&[u8]>),
        36 => two!(&[u8], u8),
        37 => one!(R3),
        38 => one!(std::time::Duration),
        39 => one!((u8, String, bool)),
        40 => one!(std::collections::HashMap<u8, u8>),
        41 => one!(Vec<Millis>),
        42 => one!(Vec<Flag>),
        43 => one!([Millis; 2]),
        44 => one!(Vec<Wrap2>),
        45 => one!(Vec<std::cmp::Reverse<u32>>),
        46 => one!(Vec<std::cell::Cell<u8>>),
        47 => one!(Vec<Box<u64>>),
        48 => one!(Vec<usize>),
        49 => one!(Vec<u128>),
        50 => one!(BTreeMap<Key, u8>),
        51 => one!(Vec<WrapNat>),
        52 => one!(Vec<(u8,)>),
        _ => "bad".to_string(),
    }
}

// native decoding under quotas (vc/native_standin.py, quota part): "ok <re-encoded> | <decoding cost> <skipping cost>" / "err QUOTA" / "err"
fn native_quota_case(k: usize, hexmsg: &str, dq: &str, sq: &str) -> String {
    use candid::utils::decode_args_with_config_debug;
    use candid::{DecoderConfig, Encode, Int, Nat};
    use nat_ty::*;
    use std::collections::BTreeMap;
    let b = hexd(hexmsg);
    let mut cfg = DecoderConfig::new();
    if dq != "-" { cfg.set_decoding_quota(dq.parse().unwrap()); }
    if sq != "-" { cfg.set_skipping_quota(sq.parse().unwrap()); }
    fn fin(r: candid::Result<(String, DecoderConfig)>) -> String {
        match r {
            Ok((v, c)) => format!("ok {} | {} {}", v, c.decoding_quota.map(|x| x.to_string()).unwrap_or("-".into()), c.skipping_quota.map(|x| x.to_string()).unwrap_or("-".into())),
            Err(e) => { let m = format!("{:?}", e); if m.contains("exceeds the limit") { "err QUOTA".to_string() } else { "err".to_string() } }
        }
    }
    macro_rules! one { ($t:ty) => { fin(decode_args_with_config_debug::<($t,)>(&b, &cfg).map(|((v,), c)| (hexe(&Encode!(&v).unwrap()), c))) } }
    macro_rules! two { ($t:ty, $u:ty) => { fin(decode_args_with_config_debug::<($t, $u)>(&b, &cfg).map(|((v, w), c)| (hexe(&Encode!(&v, &w).unwrap()), c))) } }
    match k {
        0 => one!(Vec<u8>),
        1 => one!(Vec<Option<i32>>),
        2 => one!(Option<Vec<u16>>),
        3 => one!(R1),
        4 => one!(V1),
        5 => one!(BTreeMap<String, u32>),
        6 => one!(BTreeMap<u8, Vec<u8>>),
        7 => two!(Int, Nat),
        8 => one!(Vec<Int>),
        9 => one!(Vec<Nat>),
        11 => one!(List),
        13 => one!(Result<u8, String>),
        14 => one!(Option<Option<u8>>),
        15 => one!(Vec<Vec<u8>>),
        17 => one!(R2),
        18 => two!(bool, String),
        19 => one!(Vec<(u16, Option<String>)>),
        21 => one!(V2),
        23 => two!(Vec<u64>, Vec<i16>),
        24 => one!(Option<Box<List>>),
        25 => one!(Vec<()>),
        33 => one!(V3),
        _ => "bad".to_string(),
    }
}

mod hist {
    use candid::{CandidType, Deserialize, Int};
    #[derive(CandidType, Deserialize, Debug, PartialEq, Clone)]
    pub struct Tree { pub value: Int, pub kids: Kids }
    #[derive(CandidType, Deserialize, Debug, PartialEq, Clone)]
    pub enum Kids { Leaf, Pair(Box<Tree>, Box<Tree>) }
    #[derive(CandidType, Deserialize, Debug, PartialEq, Clone)]
    pub struct List { pub head: u8, pub tail: Option<Box<List>> }
    #[derive(CandidType, Deserialize, Debug, PartialEq, Clone)]
    pub struct Wrap<T> { pub inner: T, pub more: Vec<Wrap<T>> }
    #[derive(CandidType, Deserialize, Debug, PartialEq, Clone)]
    pub enum Expr { Lit(i32), Add(Box<Expr>, Box<Expr>), Neg { e: Box<Expr> } }
    // two different types with the SAME name in different modules (the memo is keyed by TypeId, names are only for printing)
    pub mod a { use candid::{CandidType, Deserialize};
        #[derive(CandidType, Deserialize, Debug, PartialEq, Clone)] pub struct Node { pub x: u8, pub next: Option<Box<Node>> } }
    pub mod b { use candid::{CandidType, Deserialize};
        #[derive(CandidType, Deserialize, Debug, PartialEq, Clone)] pub struct Node { pub y: String, pub kids: Vec<Node> } }
    pub fn tree() -> Tree {
        let leaf = |n: i32| Tree { value: Int::from(n), kids: Kids::Leaf };
        Tree { value: Int::from(-7), kids: Kids::Pair(Box::new(leaf(1)), Box::new(leaf(-2))) }
    }
}

fn history_case(perm: &str) -> String {
    let perm = perm.to_string();
    let h = std::thread::spawn(move || {
        use hist::*;
        let mut out = Vec::new();
        for c in perm.chars() {
            macro_rules! rt { ($v:expr, $t:ty) => {{
                let v: $t = $v;
                match candid::encode_one(&v) {
                    Ok(b) => match candid::decode_one::<$t>(&b) {
                        Ok(back) => if back == v { format!("{}:{}", c, hexe(&b)) } else { format!("{}:DIFF", c) },
                        Err(e) => format!("{}:DECERR {}", c, format!("{:?}", e).replace('\n', " ").chars().take(80).collect::<String>()),
                    },
                    Err(e) => format!("{}:ENCERR {}", c, format!("{:?}", e).replace('\n', " ").chars().take(80).collect::<String>()),
                }
            }} }
            out.push(match c {
                'T' => rt!(tree(), Tree),
                'K' => rt!(Kids::Pair(Box::new(tree()), Box::new(tree())), Kids),
                'L' => rt!(List { head: 1, tail: Some(Box::new(List { head: 2, tail: None })) }, List),
                'W' => rt!(Wrap { inner: 5u16, more: vec![Wrap { inner: 6u16, more: vec![] }] }, Wrap<u16>),
                'V' => rt!(Wrap { inner: Kids::Leaf, more: vec![] }, Wrap<Kids>),
                'E' => rt!(Expr::Add(Box::new(Expr::Lit(1)), Box::new(Expr::Neg { e: Box::new(Expr::Lit(2)) })), Expr),
                'A' => rt!(a::Node { x: 1, next: Some(Box::new(a::Node { x: 2, next: None })) }, a::Node),
                'B' => rt!(b::Node { y: "r".into(), kids: vec![b::Node { y: "k".into(), kids: vec![] }] }, b::Node),
                'P' => rt!((a::Node { x: 3, next: None }, b::Node { y: "p".into(), kids: vec![] }), (a::Node, b::Node)),
                'Q' => {
                    // two LOCAL types of the same name (same module path, same type_name) in different blocks: both messages are
                    // encoded before either is decoded, then both in one message
                    type Dec = fn(&[u8]) -> candid::Result<bool>;
                    let (b1, d1): (Vec<u8>, Dec) = {
                        #[derive(candid::CandidType, candid::Deserialize, Debug, PartialEq, Clone)] struct Rec { a: u8 }
                        (candid::encode_one(Rec { a: 1 }).unwrap(), |b| candid::decode_one::<Rec>(b).map(|r| r == Rec { a: 1 }))
                    };
                    let (b2, d2): (Vec<u8>, Dec) = {
                        #[derive(candid::CandidType, candid::Deserialize, Debug, PartialEq, Clone)] struct Rec { b: String, c: Vec<u16> }
                        (candid::encode_one(Rec { b: "x".into(), c: vec![7] }).unwrap(), |b| candid::decode_one::<Rec>(b).map(|r| r == Rec { b: "x".into(), c: vec![7] }))
                    };
                    match (d1(&b1), d2(&b2), d1(&b1)) {
                        (Ok(true), Ok(true), Ok(true)) => format!("{}:{}{}", c, hexe(&b1), hexe(&b2)),
                        other => format!("{}:DIFF {}", c, format!("{:?}", other).replace('\n', " ").chars().take(120).collect::<String>()),
                    }
                }
                'y' => { let _ = <Tree as candid::CandidType>::ty(); format!("{}:ty", c) }     // type derivation only
                'z' => { let _ = <Kids as candid::CandidType>::ty(); format!("{}:ty", c) }
                _ => format!("{}:?", c),
            });
        }
        out.join(" ")
    });
    match h.join() { Ok(s) => format!("ok {}", s), Err(_) => "panic".to_string() }
}

fn derive_orders() -> String {
    use candid::types::{Label, TypeInner};
    use candid::CandidType;
    #[derive(CandidType)] struct A { r#type: u8, name: u8 }
    #[derive(CandidType)] struct B { r#fn: u8, id: u8 }
    #[derive(CandidType, candid::Deserialize)] struct C { #[serde(rename = "é")] x: u8, b: u8, #[serde(rename = "zü")] y: u8 }
    #[derive(CandidType)] struct D { r#match: u8, r#loop: u8, plain: u8, r#async: u8 }
    #[derive(CandidType, candid::Deserialize)] enum E { #[serde(rename = "é")] X, B, r#Type, Zz }
    #[derive(CandidType)] struct F { abc: u8, r#abc2: u8, abd: u8 }
    fn show(t: candid::types::Type) -> String {
        let fs = match t.as_ref() { TypeInner::Record(fs) | TypeInner::Variant(fs) => fs.clone(), _ => vec![] };
        fs.iter().map(|f| match f.id.as_ref() { Label::Named(n) => format!("n:{}", hexe(n.as_bytes())), Label::Id(i) | Label::Unnamed(i) => format!("i:{}", i) }).collect::<Vec<_>>().join(",")
    }
    format!("ok {} {} {} {} {} {}", show(A::ty()), show(B::ty()), show(C::ty()), show(D::ty()), show(E::ty()), show(F::ty()))
}



mod tyx {
    pub use candid::types::{Field, FuncMode, Function, Label, Type, TypeEnv, TypeInner};
    pub struct P<'a> { pub s: &'a [u8], pub i: usize }
    impl<'a> P<'a> {
        fn peek(&self) -> u8 { if self.i < self.s.len() { self.s[self.i] } else { 0 } }
        fn eat(&mut self, c: u8) { assert_eq!(self.peek(), c, "at {}", self.i); self.i += 1; }
        fn ident(&mut self) -> String {
            let a = self.i;
            while self.peek().is_ascii_alphanumeric() || self.peek() == b'_' { self.i += 1; }
            String::from_utf8(self.s[a..self.i].to_vec()).unwrap()
        }
        fn list(&mut self, close: &[u8]) -> Vec<Type> {
            let mut v = Vec::new();
            while !close.contains(&self.peek()) { v.push(self.ty()); if self.peek() == b';' { self.i += 1; } }
            v
        }
        fn fields(&mut self) -> Vec<Field> {
            let mut v = Vec::new();
            self.eat(b'(');
            while self.peek() != b')' {
                // a field label is a number, or `n<hex of the UTF-8 name>` for a named label
                let tok = self.ident();
                let label = if let Some(h) = tok.strip_prefix('n') {
                    let bytes: Vec<u8> = (0..h.len() / 2).map(|i| u8::from_str_radix(&h[2 * i..2 * i + 2], 16).unwrap()).collect();
                    Label::Named(String::from_utf8(bytes).unwrap())
                } else {
                    Label::Id(tok.parse().unwrap())
                };
                self.eat(b':');
                let ty = self.ty();
                v.push(Field { id: label.into(), ty });
                if self.peek() == b';' { self.i += 1; }
            }
            self.eat(b')');
            v
        }
        pub fn ty(&mut self) -> Type {
            if self.peek() == b'$' { self.i += 1; return TypeInner::Var(self.ident()).into(); }
            let k = self.ident();
            match k.as_str() {
                "nat" => TypeInner::Nat.into(), "int" => TypeInner::Int.into(), "text" => TypeInner::Text.into(),
                "null" => TypeInner::Null.into(), "reserved" => TypeInner::Reserved.into(), "empty" => TypeInner::Empty.into(),
                "bool" => TypeInner::Bool.into(), "principal" => TypeInner::Principal.into(),
                "nat8" => TypeInner::Nat8.into(), "nat16" => TypeInner::Nat16.into(), "nat32" => TypeInner::Nat32.into(), "nat64" => TypeInner::Nat64.into(),
                "int8" => TypeInner::Int8.into(), "int16" => TypeInner::Int16.into(), "int32" => TypeInner::Int32.into(), "int64" => TypeInner::Int64.into(),
                "o" => { self.eat(b'('); let t = self.ty(); self.eat(b')'); TypeInner::Opt(t).into() }
                "v" => { self.eat(b'('); let t = self.ty(); self.eat(b')'); TypeInner::Vec(t).into() }
                "r" => TypeInner::Record(self.fields()).into(),
                "V" => TypeInner::Variant(self.fields()).into(),
                "f" | "fq" => {
                    self.eat(b'(');
                    let args = self.list(b">");
                    self.eat(b'>');
                    let rets = self.list(b")");
                    self.eat(b')');
                    let modes = if k == "fq" { vec![FuncMode::Query] } else { vec![] };
                    TypeInner::Func(Function { modes, args, rets }).into()
                }
                "c" => {
                    self.eat(b'(');
                    let args = self.list(b">");
                    self.eat(b'>');
                    let t = self.ty();
                    self.eat(b')');
                    TypeInner::Class(args, t).into()
                }
                "s" => {
                    let mut ms = Vec::new();
                    self.eat(b'(');
                    while self.peek() != b')' {
                        let n = self.ident();
                        self.eat(b':');
                        ms.push((n, self.ty()));
                        if self.peek() == b';' { self.i += 1; }
                    }
                    self.eat(b')');
                    TypeInner::Service(ms).into()
                }
                other => panic!("bad type keyword {other}"),
            }
        }
    }
    pub fn parse_env(defs: &str) -> TypeEnv {
        let mut env = TypeEnv::new();
        for d in defs.split(',').filter(|d| !d.is_empty()) {
            let (n, t) = d.split_once('=').unwrap();
            env.0.insert(n.to_string(), P { s: t.as_bytes(), i: 0 }.ty());
        }
        env
    }
}

// ---------------------------------------------------------------- subtype memo scenarios
// scenario (no blanks): defs '|' queries ; defs = name=TYPE,name=TYPE.. ; queries = T1<T2,T1<T2..
// TYPE: nat int text null reserved empty bool principal | o(T) v(T) | r(id:T;id:T) | V(id:T;..) | f(T;..>T;..) fq(..) | s(name:T;..) | $name
// output: for each query two digits: answer with ONE memo shared by all queries of the scenario, answer with a fresh memo
fn subtype_case(sc: &str) -> String {
    use candid::types::subtype::{subtype_with_config, Gamma, OptReport};
    use tyx::P;
    let (defs, queries) = sc.split_once('|').unwrap();
    let env = tyx::parse_env(defs);
    let mut shared = Gamma::new();
    let mut out = String::new();
    for q in queries.split(',').filter(|q| !q.is_empty()) {
        let (a, b) = q.split_once('<').unwrap();
        let t1 = P { s: a.as_bytes(), i: 0 }.ty();
        let t2 = P { s: b.as_bytes(), i: 0 }.ty();
        let r1 = subtype_with_config(OptReport::Silence, &mut shared, &env, &t1, &t2).is_ok();
        let r2 = subtype_with_config(OptReport::Silence, &mut Gamma::new(), &env, &t1, &t2).is_ok();
        out.push(if r1 { '1' } else { '0' });
        out.push(if r2 { '1' } else { '0' });
        out.push(' ');
    }
    format!("ok {}", out.trim_end())
}

// ---------------------------------------------------------------- reference decode: a hand-built message at an expected type
fn refdecode_case(hexmsg: &str, defs: &str, ty: &str) -> String {
    let bytes = hexd(hexmsg);
    let env = tyx::parse_env(defs);
    let t = tyx::P { s: ty.as_bytes(), i: 0 }.ty();
    match candid::IDLArgs::from_bytes_with_types(&bytes, &env, &[t]) {
        Ok(_) => "ok".to_string(),
        Err(_) => "err".to_string(),
    }
}

// ---------------------------------------------------------------- native round trip of one scalar (floats by bit pattern)
fn roundtrip_case(kind: &str, val: &str) -> String {
    use candid::{Decode, Encode};
    macro_rules! rt {
        ($v:expr, $t:ty, $show:expr) => {{
            let v: $t = $v;
            let bytes = match Encode!(&v) { Ok(b) => b, Err(e) => return format!("ERR encode {e}") };
            match Decode!(&bytes, $t) {
                Ok(w) => format!("ok {} {}", hexe(&bytes), $show(&w)),
                Err(e) => format!("ERR decode {} {e}", hexe(&bytes)),
            }
        }};
    }
    match kind {
        "f32" => rt!(f32::from_bits(u32::from_str_radix(val, 16).unwrap()), f32, |w: &f32| format!("{:08x}", w.to_bits())),
        "f64" => rt!(f64::from_bits(u64::from_str_radix(val, 16).unwrap()), f64, |w: &f64| format!("{:016x}", w.to_bits())),
        "optf64" => rt!(Some(f64::from_bits(u64::from_str_radix(val, 16).unwrap())), Option<f64>, |w: &Option<f64>| format!("{:016x}", w.unwrap().to_bits())),
        "nat" => rt!(Nat(val.parse::<BigUint>().unwrap()), Nat, |w: &Nat| w.0.to_string()),
        "int" => rt!(Int(val.parse::<BigInt>().unwrap()), Int, |w: &Int| w.0.to_string()),
        "vecnat" => rt!(vec![Nat(val.parse::<BigUint>().unwrap()), Nat(BigUint::from(7u8))], Vec<Nat>, |w: &Vec<Nat>| format!("{},{}", w[0].0, w[1].0)),
        "u128" => rt!(val.parse::<u128>().unwrap(), u128, |w: &u128| w.to_string()),
        "i128" => rt!(val.parse::<i128>().unwrap(), i128, |w: &i128| w.to_string()),
        _ => "bad kind".to_string(),
    }
}

fn refdecode_short(hexmsg: &str, defs: &str, ty: &str) -> String {
    let bytes = hexd(hexmsg);
    let env = tyx::parse_env(defs);
    let t = tyx::P { s: ty.as_bytes(), i: 0 }.ty();
    let mut config = candid::DecoderConfig::new();
    config.set_full_error_message(false);
    match candid::IDLArgs::from_bytes_with_types_with_config(&bytes, &env, &[t], &config) {
        Ok(_) => "ok".to_string(),
        Err(_) => "err".to_string(),
    }
}

// ---------------------------------------------------------------- deeply nested VALUES on threads with little stack
// kind "opt": untyped decoding of `type T = opt T` nested `depth` times; kind "list": native decoding of a `depth`-long List.
// Whatever the stack size, decoding must return (the recursion guard looks at the stack that is left), not overflow it.
fn deep_value_case(kind: &str, depth: usize, stack_kb: usize) -> String {
    let bytes: Vec<u8> = if kind == "opt" {
        let mut m = b"DIDL\x01\x6e\x00\x01\x00".to_vec();
        m.extend(std::iter::repeat(1u8).take(depth));
        m.push(0);
        m
    } else {
        use candid::Encode;
        use nat_ty::List;
        let one = Encode!(&List { head: 1, tail: None }).unwrap();
        let (hdr, cell) = one.split_at(one.len() - 2);
        let mut m = hdr.to_vec();
        if cell == [1, 0] {
            // fields in the order head, tail: every cell is `head, tag` and the next cell follows
            for _ in 0..depth { m.extend([1u8, 1u8]); }
            m.extend([1u8, 0u8]);
        } else {
            // fields in the order tail, head: all the tags first, then the heads on the way back
            m.extend(std::iter::repeat(1u8).take(depth));
            m.push(0);
            m.extend(std::iter::repeat(1u8).take(depth + 1));
        }
        m
    };
    let kind = kind.to_string();
    let h = std::thread::Builder::new().stack_size(stack_kb * 1024).spawn(move || {
        if kind == "opt" {
            candid::IDLArgs::from_bytes(&bytes).map(|_| ()).map_err(|_| ())
        } else {
            use candid::Decode;
            let r = Decode!(&bytes, nat_ty::List);
            match r { Ok(v) => { std::mem::forget(v); Ok(()) } Err(_) => Err(()) }
        }
    }).unwrap();
    match h.join() { Ok(Ok(())) => "ok".to_string(), Ok(Err(())) => "err".to_string(), Err(_) => "panic".to_string() }
}

// ---------------------------------------------------------------- deep reference types near the end of the stack
fn deep_case(depth: usize, stack_kb: usize) -> String {
    use candid::types::{Function, Type, TypeEnv, TypeInner};
    fn leb(mut n: u64) -> Vec<u8> { let mut o = vec![]; loop { let b = (n & 0x7f) as u8; n >>= 7; if n == 0 { o.push(b); break } o.push(b | 0x80) } o }
    fn sleb(n: i64) -> Vec<u8> { let mut o = vec![]; let mut v = n; loop { let b = (v & 0x7f) as u8; v >>= 7; if (v == 0 && b & 0x40 == 0) || (v == -1 && b & 0x40 != 0) { o.push(b); break } o.push(b | 0x80) } o }
    let h = std::thread::Builder::new().stack_size(stack_kb * 1024).spawn(move || {
        // table: 0: func () -> (1) ; i (1..depth): opt (i+1) ; depth: opt nat ; value: a function reference
        let mut msg = b"DIDL".to_vec();
        msg.extend(leb(depth as u64 + 1));
        msg.extend([0x6a, 0x00, 0x01, 0x01, 0x00]);
        for i in 1..=depth {
            msg.push(0x6e);
            if i < depth { msg.extend(sleb(i as i64 + 1)); } else { msg.push(0x7d); }
        }
        msg.extend([0x01, 0x00]);
        msg.extend([0x01, 0x01, 0x00, 0x01, b'm']);
        let mut env = TypeEnv::new();
        for i in 1..=depth {
            let inner: Type = if i < depth { TypeInner::Var(format!("E{}", i + 1)).into() } else { TypeInner::Nat.into() };
            env.0.insert(format!("E{i}"), TypeInner::Opt(inner).into());
        }
        let expected: Type = TypeInner::Func(Function { modes: vec![], args: vec![], rets: vec![TypeInner::Var("E1".into()).into()] }).into();
        std::panic::catch_unwind(move || candid::IDLArgs::from_bytes_with_types(&msg, &env, &[expected]).is_ok())
    }).unwrap();
    match h.join() {
        Ok(Ok(true)) => "ok".to_string(),
        Ok(Ok(false)) => "err".to_string(),
        _ => "panic".to_string(),
    }
}

// ---------------------------------------------------------------- coercion: decode at expected types, hand the result back re-encoded
fn coerce_case(hexmsg: &str, tys: &str, defs: &str) -> String {
    let bytes = hexd(hexmsg);
    let env = tyx::parse_env(defs);
    let mut types = Vec::new();
    for t in tys.split(',').filter(|t| !t.is_empty() && *t != "-") {
        types.push(tyx::P { s: t.as_bytes(), i: 0 }.ty());
    }
    let show = |r: candid::Result<candid::IDLArgs>| match r {
        Ok(args) => match args.to_bytes_with_types(&env, &types) {
            Ok(b) => format!("ok {}", hexe(&b)),
            Err(e) => format!("REENCODE-ERR {e}"),
        },
        Err(_) => "err".to_string(),
    };
    // the two typed entry points of IDLArgs must agree (one takes a DecoderConfig; none is set here)
    let a = show(candid::IDLArgs::from_bytes_with_types(&bytes, &env, &types));
    let b = show(candid::IDLArgs::from_bytes_with_types_with_config(&bytes, &env, &types, &candid::DecoderConfig::new()));
    if a == b { a } else { format!("ENTRY-POINTS-DISAGREE with_types={a} with_config={b}") }
}
