//! Runs the REAL candid crate (path dependency on /repo, or $VERIF_REPO via a generated Cargo.toml) on
//! vectors given on stdin and prints what it observed; expectations are computed by the Python driver.
//!   en <dec>        Nat::encode           -> hex
//!   ei <dec>        Int::encode           -> hex
//!   dn <hex>        Nat::decode           -> "ok <dec> <consumed>" | "err"
//!   di <hex>        Int::decode           -> "ok <dec> <consumed>" | "err"
use candid::{Int, Nat};
use num_bigint::{BigInt, BigUint};
use std::io::{BufRead, Cursor};

fn hexd(hex: &str) -> Vec<u8> {
    (0..hex.len() / 2).map(|i| u8::from_str_radix(&hex[2 * i..2 * i + 2], 16).unwrap()).collect()
}
fn hexe(b: &[u8]) -> String {
    b.iter().map(|x| format!("{:02x}", x)).collect()
}

fn main() {
    let stdin = std::io::stdin();
    for line in stdin.lock().lines() {
        let line = line.unwrap();
        let mut parts: Vec<String> = line.trim().split(' ').map(|s| s.to_string()).collect();
        if parts.len() < 2 {
            parts.push(String::new());
        }
        let p = parts.clone();
        let r = std::panic::catch_unwind(move || match p[0].as_str() {
            "en" => {
                let v: BigUint = p[1].parse().unwrap();
                let mut o = Vec::new();
                Nat(v).encode(&mut o).unwrap();
                format!("ok {}", hexe(&o))
            }
            "ei" => {
                let v: BigInt = p[1].parse().unwrap();
                let mut o = Vec::new();
                Int(v).encode(&mut o).unwrap();
                format!("ok {}", hexe(&o))
            }
            "dn" => {
                let b = hexd(&p[1]);
                let mut c = Cursor::new(&b[..]);
                match Nat::decode(&mut c) {
                    Ok(v) => format!("ok {} {}", v.0, c.position()),
                    Err(_) => "err".to_string(),
                }
            }
            "di" => {
                let b = hexd(&p[1]);
                let mut c = Cursor::new(&b[..]);
                match Int::decode(&mut c) {
                    Ok(v) => format!("ok {} {}", v.0, c.position()),
                    Err(_) => "err".to_string(),
                }
            }
            // principal: "pt <hex>" bytes -> text ; "pf <text>" text -> bytes | error kind ; "ps <hex>" try_from_slice
            "pt" => {
                let b = hexd(&p[1]);
                match ic_principal::Principal::try_from_slice(&b) {
                    Ok(pr) => format!("ok {}", pr.to_text()),
                    Err(_) => "err".to_string(),
                }
            }
            "pf" => match ic_principal::Principal::from_text(&p[1]) {
                Ok(pr) => format!("ok {}", hexe(pr.as_slice())),
                Err(e) => format!("err {}", match e {
                    ic_principal::PrincipalError::BytesTooLong() => "BytesTooLong",
                    ic_principal::PrincipalError::InvalidBase32() => "InvalidBase32",
                    ic_principal::PrincipalError::TextTooShort() => "TextTooShort",
                    ic_principal::PrincipalError::TextTooLong() => "TextTooLong",
                    ic_principal::PrincipalError::CheckSequenceNotMatch() => "CheckSequenceNotMatch",
                    ic_principal::PrincipalError::AbnormalGrouped(_) => "AbnormalGrouped",
                }),
            },
            "ps" => {
                let b = hexd(&p[1]);
                match ic_principal::Principal::try_from_slice(&b) {
                    Ok(pr) => format!("ok {}", hexe(pr.as_slice())),
                    Err(_) => "err".to_string(),
                }
            }
            _ => "bad".to_string(),
        });
        match r {
            Ok(s) => println!("{}", s),
            Err(_) => println!("panic"),
        }
    }
}
