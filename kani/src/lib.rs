//! Kani twins (thorough tier): the same contracts, checked on the COMPILED crate.
//! Each harness says whether it is complete (loop bounded by operand width, unwinding assertions on)
//! or bounded (input length bound).
#![allow(unused)]

#[cfg(kani)]
mod bulk {
    //! K-bulk: the raw little-endian writer may only be used for the eleven fixed-width primitives, with the
    //! element width of the Rust type. Loop-free, one harness per type family => COMPLETE for the listed types.
    use candid::types::verif_hooks::fixed_primitive_byte_size_of as w;
    use std::mem::size_of;

    #[kani::proof]
    fn bulk_width_primitives() {
        assert!(w::<bool>() == Some(size_of::<bool>()));
        assert!(w::<u8>() == Some(size_of::<u8>()));
        assert!(w::<i8>() == Some(size_of::<i8>()));
        assert!(w::<u16>() == Some(size_of::<u16>()));
        assert!(w::<i16>() == Some(size_of::<i16>()));
        assert!(w::<u32>() == Some(size_of::<u32>()));
        assert!(w::<i32>() == Some(size_of::<i32>()));
        assert!(w::<f32>() == Some(size_of::<f32>()));
        assert!(w::<u64>() == Some(size_of::<u64>()));
        assert!(w::<i64>() == Some(size_of::<i64>()));
        assert!(w::<f64>() == Some(size_of::<f64>()));
    }

    #[kani::proof]
    fn bulk_width_wrappers_are_not_raw() {
        // types that share a primitive's Candid type but not its memory layout must take the element-wise path
        assert!(w::<Box<u64>>().is_none());
        assert!(w::<Box<u16>>().is_none());
        assert!(w::<std::rc::Rc<u32>>().is_none());
        assert!(w::<std::sync::Arc<i64>>().is_none());
        assert!(w::<&'static u8>().is_none());
        assert!(w::<std::cell::RefCell<u8>>().is_none());
        assert!(w::<Option<u8>>().is_none());
        assert!(w::<u128>().is_none());
        assert!(w::<candid::Nat>().is_none());
        assert!(w::<String>().is_none());
    }
}

#[cfg(kani)]
mod prim_ser {
    //! K-prim (writer half): the ten `serialize_num!` expansions (macro + paste, invisible to Verus) write
    //! exactly N/8 little-endian bytes. Full domain of each type, loop-free => COMPLETE.
    use candid::ser::ValueSerializer;
    use candid::types::Serializer;

    macro_rules! le_harness { ($name:ident, $meth:ident, $t:ty) => {
        #[kani::proof]
        fn $name() {
            let v: $t = kani::any();
            let mut s = ValueSerializer::new();
            (&mut s).$meth(v).unwrap();
            let out = s.get_result();
            let want = v.to_le_bytes();
            assert!(out.len() == want.len());
            let mut i = 0;
            while i < want.len() { assert!(out[i] == want[i]); i += 1; }
        }
    } }
    le_harness!(ser_nat8, serialize_nat8, u8);
    le_harness!(ser_nat16, serialize_nat16, u16);
    le_harness!(ser_nat32, serialize_nat32, u32);
    le_harness!(ser_nat64, serialize_nat64, u64);
    le_harness!(ser_int8, serialize_int8, i8);
    le_harness!(ser_int16, serialize_int16, i16);
    le_harness!(ser_int32, serialize_int32, i32);
    le_harness!(ser_int64, serialize_int64, i64);

    #[kani::proof]
    fn ser_float32() {
        let bits: u32 = kani::any();
        let mut s = ValueSerializer::new();
        (&mut s).serialize_float32(f32::from_bits(bits)).unwrap();
        let out = s.get_result();
        let want = bits.to_le_bytes();
        assert!(out.len() == 4 && out[0] == want[0] && out[1] == want[1] && out[2] == want[2] && out[3] == want[3]);
    }
    #[kani::proof]
    fn ser_float64() {
        let bits: u64 = kani::any();
        let mut s = ValueSerializer::new();
        (&mut s).serialize_float64(f64::from_bits(bits)).unwrap();
        let out = s.get_result();
        let want = bits.to_le_bytes();
        assert!(out.len() == 8);
        let mut i = 0;
        while i < 8 { assert!(out[i] == want[i]); i += 1; }
    }
}

// (K-prim reader half was attempted through a cfg-guarded hook constructing a Deserializer at byte 0: the Kani 0.68
// compiler panics on code reachable from the readers -- "kani-compiler/src/intrinsics.rs:243 assertion failed" -- so
// the ten primitive_impl! readers stay assumed twins in the Verus unit U6b; the hook was not committed.)

#[cfg(kani)]
mod twins {
    use candid::Int;

    /// reference: minimal signed LEB128 of an i128, written from spec/Candid.md
    fn sleb_ref(mut v: i128, out: &mut [u8; 20]) -> usize {
        let mut n = 0;
        loop {
            let byte = (v & 0x7f) as u8;
            v >>= 7;
            let done = (v == 0 && byte & 0x40 == 0) || (v == -1 && byte & 0x40 != 0);
            out[n] = if done { byte } else { byte | 0x80 };
            n += 1;
            if done {
                return n;
            }
        }
    }

    /// Int::encode on the big-number path emits the minimal SLEB128 string (BOUNDED: values of 65..72 bits)
    #[kani::proof]
    #[kani::unwind(22)]
    fn int_encode_bignum_path_minimal() {
        let v: i128 = kani::any();
        kani::assume(v < -(1i128 << 63) || v >= (1i128 << 63));
        kani::assume(v >= -(1i128 << 71) && v < (1i128 << 71));
        let mut out: Vec<u8> = Vec::new();
        Int::from(v).encode(&mut out).unwrap();
        let mut r = [0u8; 20];
        let n = sleb_ref(v, &mut r);
        assert!(out.len() == n);
        let mut i = 0;
        while i < n {
            assert!(out[i] == r[i]);
            i += 1;
        }
    }
}
