//! Kani twins (thorough tier): the same contracts, checked on the COMPILED crate.
//! Each harness says whether it is complete (loop bounded by operand width, unwinding assertions on)
//! or bounded (input length bound).
#![allow(unused)]

#[cfg(kani)]
mod twins {
    use candid::Int;

    /// reference: minimal signed LEB128 of an i128, written from spec/Candid.md
    fn sleb_ref(mut v: i128, out: &mut [u8; 20]) -> usize {
        let mut n = 0;
        loop {
            let byte = (v & 0x7f) as u8;
            v >>= 7;
            let done = (v == 0 && byte & 0x40 == 0) || (v == -1 && byte & 0x40 != 0);
            out[n] = if done { byte } else { byte | 0x80 };
            n += 1;
            if done {
                return n;
            }
        }
    }

    /// Int::encode on the big-number path emits the minimal SLEB128 string (BOUNDED: values of 65..72 bits)
    #[kani::proof]
    #[kani::unwind(22)]
    fn int_encode_bignum_path_minimal() {
        let v: i128 = kani::any();
        kani::assume(v < -(1i128 << 63) || v >= (1i128 << 63));
        kani::assume(v >= -(1i128 << 71) && v < (1i128 << 71));
        let mut out: Vec<u8> = Vec::new();
        Int::from(v).encode(&mut out).unwrap();
        let mut r = [0u8; 20];
        let n = sleb_ref(v, &mut r);
        assert!(out.len() == n);
        let mut i = 0;
        while i < n {
            assert!(out[i] == r[i]);
            i += 1;
        }
    }
}
